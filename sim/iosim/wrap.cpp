// Link-time interposition of the libc calls libstdc++'s basic_filebuf makes (see wrap.hpp).
#include "wrap.hpp"
#include <cerrno>
#include <cstdio>
#include <cstring>
#include <sys/types.h>
#include <sys/uio.h>
#include <unistd.h>

namespace simdisk {
static Ctl g_ctl;
Ctl &ctl() { return g_ctl; }
bool linked() { return g_ctl.opens > 0; }
} // namespace simdisk

using simdisk::g_ctl;

extern "C" {
FILE *__real_fopen64(const char *path, const char *mode);
ssize_t __real_read(int fd, void *buf, size_t n);
ssize_t __real_write(int fd, const void *buf, size_t n);
ssize_t __real_writev(int fd, const struct iovec *iov, int cnt);
off64_t __real_lseek64(int fd, off64_t off, int whence);

off64_t __wrap_lseek64(int fd, off64_t off, int whence) {
    if (fd >= 0 && fd == g_ctl.watchFd && g_ctl.noSeek) {
        ++g_ctl.seeksRefused;
        errno = ESPIPE;
        return (off64_t)-1;
    }
    return __real_lseek64(fd, off, whence);
}

FILE *__wrap_fopen64(const char *path, const char *mode) {
    ++g_ctl.opens;
    bool watched = g_ctl.watchPath && path && strcmp(path, g_ctl.watchPath) == 0;
    if (watched && g_ctl.openErrno) {
        ++g_ctl.openFails;
        errno = g_ctl.openErrno;
        return nullptr;
    }
    FILE *f = __real_fopen64(path, mode);
    if (watched && f) {
        g_ctl.watchFd = fileno(f);
        g_ctl.readPos = 0;
        g_ctl.writePos = 0;
        g_ctl.nWriteEnds = 0;
    }
    return f;
}

ssize_t __wrap_read(int fd, void *buf, size_t n) {
    if (fd >= 0 && fd == g_ctl.watchFd && g_ctl.readMode) {
        ++g_ctl.reads;
        if (g_ctl.readMode == 1) {
            long left = g_ctl.readAt - g_ctl.readPos;
            if (left <= 0) {
                ++g_ctl.readFaults;
                errno = EIO;
                return -1;
            }
            if ((long)n > left) n = (size_t)left;
        } else if (g_ctl.readMode == 2) {
            if (g_ctl.eintrEvery > 0 && (++g_ctl.readCalls % g_ctl.eintrEvery) == 0) {
                ++g_ctl.eintrs;
                errno = EINTR;
                return -1;
            }
            if ((long)n > g_ctl.gran) { n = (size_t)g_ctl.gran; ++g_ctl.shortReads; }
        }
        ssize_t r = __real_read(fd, buf, n);
        if (r > 0) g_ctl.readPos += r;
        return r;
    }
    if (fd >= 0 && fd == g_ctl.watchFd) ++g_ctl.reads;
    return __real_read(fd, buf, n);
}

static void noteWrite(int fd, ssize_t r) {
    if (r > 0) g_ctl.bytesWritten += r;
    if (fd >= 0 && fd == g_ctl.watchFd && r > 0) {
        g_ctl.writePos += r;
        if (g_ctl.nWriteEnds < simdisk::Ctl::LOGN) g_ctl.writeEnds[g_ctl.nWriteEnds++] = g_ctl.writePos;
    }
}

static bool failWrite(int fd, size_t n) {
    return fd >= 0 && fd == g_ctl.watchFd && g_ctl.writeFailAt >= 0 && g_ctl.writePos + (long)n > g_ctl.writeFailAt;
}

ssize_t __wrap_write(int fd, const void *buf, size_t n) {
    if (fd > 2) {
        ++g_ctl.writes;
        if (g_ctl.yieldHook) g_ctl.yieldHook();
    }
    if (failWrite(fd, n)) {
        for (size_t i = 0; i < n; ++i) g_ctl.bufferSum += ((const unsigned char *)buf)[i];
        ++g_ctl.writeFaults;
        errno = ENOSPC;
        return -1;
    }
    ssize_t r = __real_write(fd, buf, n);
    if (fd > 2) noteWrite(fd, r);
    return r;
}

ssize_t __wrap_writev(int fd, const struct iovec *iov, int cnt) {
    if (fd > 2) {
        ++g_ctl.writevs;
        if (g_ctl.yieldHook) g_ctl.yieldHook();
    }
    size_t total = 0;
    for (int i = 0; i < cnt; ++i) total += iov[i].iov_len;
    if (failWrite(fd, total)) {
        for (int i = 0; i < cnt; ++i)
            for (size_t k = 0; k < iov[i].iov_len; ++k) g_ctl.bufferSum += ((const unsigned char *)iov[i].iov_base)[k];
        ++g_ctl.writeFaults;
        errno = ENOSPC;
        return -1;
    }
    ssize_t r = __real_writev(fd, iov, cnt);
    if (fd > 2) noteWrite(fd, r);
    return r;
}
}
