// SimDisk control block: the link-time wrap layer (-Wl,--wrap=fopen64,--wrap=read,--wrap=write,--wrap=writev with
// -static-libstdc++) routes libstdc++'s own libc calls through wrap.cpp, which consults this structure.
// With everything disarmed the layer only counts.
#pragma once
#include <cstddef>
#include <string>

namespace simdisk {

struct Ctl {
    // arming (set by the simulator before the library call, cleared after)
    const char *watchPath = nullptr; // only calls on this path / its fd are affected
    int watchFd = -1;
    int openErrno = 0;       // !=0: fopen64(watchPath) fails with this errno
    int readMode = 0;        // 0 none, 1 EIO once `readAt` bytes were delivered, 2 short reads of at most `gran` bytes
    long readAt = 0;
    long gran = 1;
    long writeFailAt = -1;   // >=0: writes on the watched file fail with ENOSPC once this many bytes were written (full disk)
    bool noSeek = false;     // the watched file behaves like a pipe / FIFO: lseek fails with ESPIPE (reads stay sequential)
    int eintrEvery = 0;      // >0 (with readMode 2): every n-th read call is interrupted first (-1/EINTR), which libstdc++ must retry
    long readPos = 0;        // bytes delivered so far on watchFd
    void (*yieldHook)() = nullptr; // C18: called before every write/writev of the library
    // counters (never reset by the layer)
    long opens = 0, openFails = 0, reads = 0, readFaults = 0, shortReads = 0, eintrs = 0, writes = 0, writevs = 0, bytesWritten = 0;
    long readCalls = 0, seeksRefused = 0, writeFaults = 0;
    unsigned long bufferSum = 0; // the wrapped write reads the caller's buffer like a kernel would (visible to ASan / valgrind)
    // write log of the watched fd: end offset of each write syscall
    static const int LOGN = 256;
    long writeEnds[LOGN];
    int nWriteEnds = 0;
    long writePos = 0;
};

Ctl &ctl();
// result of the I/O the worker performs during static initialisation (sim/main/main.cpp)
const std::string &earlyBytes();
bool earlyRoundTrip();
bool earlyCompleted();
bool linked(); // true when the wrap layer is part of this binary and libstdc++ is routed through it

inline void disarm() {
    Ctl &c = ctl();
    c.watchPath = nullptr;
    c.watchFd = -1;
    c.openErrno = 0;
    c.readMode = 0;
    c.readAt = 0;
    c.gran = 1;
    c.eintrEvery = 0;
    c.noSeek = false;
    c.writeFailAt = -1;
    c.readCalls = 0;
    c.readPos = 0;
    c.nWriteEnds = 0;
    c.writePos = 0;
}

} // namespace simdisk
