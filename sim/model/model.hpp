// Reference model: deliberately naive, shares no code with the library.
// n vertices plus std::map<(u,v), {copies, value}>; every observer is recomputed from the map by brute force.
#pragma once
#include <algorithm>
#include <cstdint>
#include <map>
#include <string>
#include <utility>
#include <vector>
#include "../core/digest.hpp"

namespace model {

typedef std::pair<unsigned, unsigned> Key;

struct MEdge {
    int copies = 1;     // >1 only after forced insertions (C16)
    double val = 0;     // label alphabet index | multiplicity | weight
    bool known = true;  // false: copies of the pair carried different labels; the stored value is unspecified
    bool operator==(const MEdge &o) const { return copies == o.copies && val == o.val && known == o.known; }
};

struct Model {
    bool directed = true;
    unsigned n = 0;
    std::map<Key, MEdge> e;
    std::map<Key, char> ever; // pairs that were an edge at some point of this history (where stale state can hide)
    std::map<Key, int> orphan; // absent pairs that were given a label by setEdgeLabel(force=true): label oracles do not apply
    long double absAdded = 0; // running magnitude of all weights ever added (rounding bound of C05)
    long mutations = 0;       // effective mutations so far

    Key key(unsigned a, unsigned b) const {
        if (!directed && a > b) return Key(b, a);
        return Key(a, b);
    }
    bool has(unsigned a, unsigned b) const { return e.count(key(a, b)) != 0; }
    const MEdge *find(unsigned a, unsigned b) const {
        auto it = e.find(key(a, b));
        return it == e.end() ? nullptr : &it->second;
    }
    MEdge *find(unsigned a, unsigned b) {
        auto it = e.find(key(a, b));
        return it == e.end() ? nullptr : &it->second;
    }
    bool hasDuplicates() const {
        for (auto &kv : e) if (kv.second.copies > 1) return true;
        return false;
    }
    bool allKnown() const {
        for (auto &kv : e) if (!kv.second.known) return false;
        return true;
    }
    size_t edgeNumber() const {
        size_t c = 0;
        for (auto &kv : e) c += (size_t)kv.second.copies;
        return c;
    }
    // neighbour multiset of vertex i (sorted)
    std::vector<unsigned> neighbours(unsigned i) const {
        std::vector<unsigned> r;
        for (auto &kv : e) {
            unsigned a = kv.first.first, b = kv.first.second;
            if (directed) {
                if (a == i) r.insert(r.end(), (size_t)kv.second.copies, b);
            } else {
                if (a == i && b == i) r.insert(r.end(), (size_t)kv.second.copies, i);
                else if (a == i) r.insert(r.end(), (size_t)kv.second.copies, b);
                else if (b == i) r.insert(r.end(), (size_t)kv.second.copies, a);
            }
        }
        std::sort(r.begin(), r.end());
        return r;
    }
    bool sameGraph(const Model &o) const { return directed == o.directed && n == o.n && e == o.e; }
    uint64_t hash(const std::string &salt) const {
        sim::Digest d;
        d.str(salt);
        d.u64(n);
        for (auto &kv : e) {
            d.u64(kv.first.first);
            d.u64(kv.first.second);
            d.u64((uint64_t)kv.second.copies);
            d.dbl(kv.second.val);
            d.byte(kv.second.known);
        }
        return d.h;
    }
    // --- mutators of the model (the specification of each library call) ---
    void touch() { ++mutations; }
    // returns true if the pair was created
    bool add(unsigned a, unsigned b, double val) {
        Key k = key(a, b);
        if (e.count(k)) return false;
        MEdge m; m.val = val;
        e[k] = m;
        if (n > 24) ever[k] = 1;
        touch();
        return true;
    }
    void addForced(unsigned a, unsigned b, double val) {
        Key k = key(a, b);
        auto it = e.find(k);
        if (it == e.end()) { MEdge m; m.val = val; e[k] = m; if (n > 24) ever[k] = 1; }
        else {
            it->second.copies += 1;
            if (it->second.val != val) it->second.known = false;
            // the stored label is the last one written; irrelevant unless known
            it->second.val = val;
        }
        touch();
    }
    bool remove(unsigned a, unsigned b) {
        bool r = e.erase(key(a, b)) != 0;
        if (r) touch();
        return r;
    }
    void removeLoops() {
        for (auto it = e.begin(); it != e.end();)
            if (it->first.first == it->first.second) { it = e.erase(it); touch(); } else ++it;
    }
    void removeVertex(unsigned v) {
        for (auto it = e.begin(); it != e.end();)
            if (it->first.first == v || it->first.second == v) { it = e.erase(it); touch(); } else ++it;
    }
    void clear() { if (!e.empty()) touch(); e.clear(); }
    void dedup() {
        for (auto &kv : e) if (kv.second.copies > 1) { kv.second.copies = 1; touch(); }
    }
};

} // namespace model
