// 64-bit FNV-1a event digest: the determinism witness and the cross-build oracle.
#pragma once
#include <cstdint>
#include <cstring>
#include <string>

namespace sim {

struct Digest {
    uint64_t h = 0xcbf29ce484222325ULL;
    void byte(unsigned char c) { h = (h ^ c) * 0x100000001b3ULL; }
    void u64(uint64_t v) {
        for (int i = 0; i < 8; ++i) byte((unsigned char)(v >> (8 * i)));
    }
    void i64(int64_t v) { u64((uint64_t)v); }
    void dbl(double d) {
        uint64_t b;
        std::memcpy(&b, &d, sizeof b);
        u64(b);
    }
    void ldbl(long double d) {
        // x87 long double: 10 significant bytes; fold value, not padding
        unsigned char buf[sizeof(long double)];
        std::memset(buf, 0, sizeof buf);
        std::memcpy(buf, &d, sizeof d);
        for (int i = 0; i < 10; ++i) byte(buf[i]);
    }
    void str(const std::string &s) {
        u64(s.size());
        for (unsigned char c : s) byte(c);
    }
    void tag(const char *s) {
        for (; *s; ++s) byte((unsigned char)*s);
        byte(0xff);
    }
};

inline std::string hex64(uint64_t v) {
    static const char *d = "0123456789abcdef";
    std::string r(16, '0');
    for (int i = 15; i >= 0; --i) { r[i] = d[v & 15]; v >>= 4; }
    return r;
}

inline std::string toHex(const std::string &bytes) {
    static const char *d = "0123456789abcdef";
    std::string r;
    r.reserve(bytes.size() * 2);
    for (unsigned char c : bytes) { r += d[c >> 4]; r += d[c & 15]; }
    return r;
}
inline std::string fromHex(const std::string &hex) {
    auto v = [](char c) -> int { return c <= '9' ? c - '0' : (c | 32) - 'a' + 10; };
    std::string r;
    for (size_t i = 0; i + 1 < hex.size(); i += 2) r += (char)((v(hex[i]) << 4) | v(hex[i + 1]));
    return r;
}

} // namespace sim
