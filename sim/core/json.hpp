// Minimal JSON (ints, strings, bools, null, arrays, objects) for plan/replay files and result lines.
#pragma once
#include <cstdint>
#include <cstdio>
#include <map>
#include <memory>
#include <stdexcept>
#include <string>
#include <utility>
#include <vector>

namespace sim {

struct Json {
    enum T { NUL, BOOL, INT, STR, ARR, OBJ } t = NUL;
    bool b = false;
    int64_t i = 0;
    std::string s;
    std::vector<Json> a;
    std::vector<std::pair<std::string, Json>> o;

    Json() {}
    static Json I(int64_t v) { Json j; j.t = INT; j.i = v; return j; }
    static Json S(const std::string &v) { Json j; j.t = STR; j.s = v; return j; }
    static Json B(bool v) { Json j; j.t = BOOL; j.b = v; return j; }
    static Json A() { Json j; j.t = ARR; return j; }
    static Json O() { Json j; j.t = OBJ; return j; }

    Json &set(const std::string &k, Json v) {
        for (auto &kv : o)
            if (kv.first == k) { kv.second = std::move(v); return *this; }
        o.emplace_back(k, std::move(v));
        return *this;
    }
    const Json *get(const std::string &k) const {
        for (auto &kv : o)
            if (kv.first == k) return &kv.second;
        return nullptr;
    }
    int64_t geti(const std::string &k, int64_t d = 0) const {
        auto *p = get(k);
        if (!p) return d;
        if (p->t == INT) return p->i;
        if (p->t == BOOL) return p->b;
        return d;
    }
    std::string gets(const std::string &k, const std::string &d = "") const {
        auto *p = get(k);
        return (p && p->t == STR) ? p->s : d;
    }

    static void esc(std::string &out, const std::string &s) {
        out += '"';
        for (unsigned char c : s) {
            switch (c) {
            case '"': out += "\\\""; break;
            case '\\': out += "\\\\"; break;
            case '\n': out += "\\n"; break;
            case '\t': out += "\\t"; break;
            case '\r': out += "\\r"; break;
            default:
                if (c < 0x20 || c >= 0x7f) {
                    char buf[8];
                    snprintf(buf, sizeof buf, "\\u%04x", c);
                    out += buf;
                } else
                    out += (char)c;
            }
        }
        out += '"';
    }
    void dump(std::string &out) const {
        switch (t) {
        case NUL: out += "null"; break;
        case BOOL: out += b ? "true" : "false"; break;
        case INT: out += std::to_string(i); break;
        case STR: esc(out, s); break;
        case ARR:
            out += '[';
            for (size_t k = 0; k < a.size(); ++k) {
                if (k) out += ',';
                a[k].dump(out);
            }
            out += ']';
            break;
        case OBJ:
            out += '{';
            for (size_t k = 0; k < o.size(); ++k) {
                if (k) out += ',';
                esc(out, o[k].first);
                out += ':';
                o[k].second.dump(out);
            }
            out += '}';
            break;
        }
    }
    std::string str() const { std::string r; dump(r); return r; }

    // ---- parser ----
    struct P {
        const std::string &s;
        size_t p = 0;
        explicit P(const std::string &s) : s(s) {}
        void ws() { while (p < s.size() && (s[p] == ' ' || s[p] == '\n' || s[p] == '\t' || s[p] == '\r')) ++p; }
        [[noreturn]] void fail(const char *m) { throw std::runtime_error(std::string("json: ") + m + " at " + std::to_string(p)); }
        Json val() {
            ws();
            if (p >= s.size()) fail("eof");
            char c = s[p];
            if (c == '{') {
                Json j = Json::O();
                ++p; ws();
                if (s[p] == '}') { ++p; return j; }
                for (;;) {
                    ws();
                    Json k = str();
                    ws();
                    if (s[p] != ':') fail("colon");
                    ++p;
                    j.o.emplace_back(k.s, val());
                    ws();
                    if (s[p] == ',') { ++p; continue; }
                    if (s[p] == '}') { ++p; break; }
                    fail("obj");
                }
                return j;
            }
            if (c == '[') {
                Json j = Json::A();
                ++p; ws();
                if (s[p] == ']') { ++p; return j; }
                for (;;) {
                    j.a.push_back(val());
                    ws();
                    if (s[p] == ',') { ++p; continue; }
                    if (s[p] == ']') { ++p; break; }
                    fail("arr");
                }
                return j;
            }
            if (c == '"') return str();
            if (s.compare(p, 4, "null") == 0) { p += 4; return Json(); }
            if (s.compare(p, 4, "true") == 0) { p += 4; return Json::B(true); }
            if (s.compare(p, 5, "false") == 0) { p += 5; return Json::B(false); }
            // integer (a fractional/exponent part is accepted and truncated)
            size_t q = p;
            if (s[q] == '-') ++q;
            if (q >= s.size() || s[q] < '0' || s[q] > '9') fail("value");
            bool neg = s[p] == '-';
            uint64_t v = 0;
            while (q < s.size() && s[q] >= '0' && s[q] <= '9') { v = v * 10 + (uint64_t)(s[q] - '0'); ++q; }
            while (q < s.size() && (s[q] == '.' || s[q] == 'e' || s[q] == 'E' || s[q] == '+' || s[q] == '-' || (s[q] >= '0' && s[q] <= '9'))) ++q;
            p = q;
            return Json::I(neg ? (int64_t)(0 - v) : (int64_t)v);
        }
        Json str() {
            if (s[p] != '"') fail("string");
            ++p;
            std::string r;
            while (p < s.size() && s[p] != '"') {
                if (s[p] == '\\') {
                    ++p;
                    char c = s[p++];
                    switch (c) {
                    case 'n': r += '\n'; break;
                    case 't': r += '\t'; break;
                    case 'r': r += '\r'; break;
                    case 'b': r += '\b'; break;
                    case 'f': r += '\f'; break;
                    case 'u': {
                        unsigned v = (unsigned)std::stoul(s.substr(p, 4), nullptr, 16);
                        p += 4;
                        r += (char)(unsigned char)(v & 0xff); // plans only carry bytes
                        break;
                    }
                    default: r += c;
                    }
                } else
                    r += s[p++];
            }
            if (p >= s.size()) fail("unterminated");
            ++p;
            return Json::S(r);
        }
    };
    static Json parse(const std::string &text) {
        P p(text);
        return p.val();
    }
};

} // namespace sim
