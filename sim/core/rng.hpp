// Seeded PRNG owned by the simulator: splitmix64 -> xoshiro256**.
// No std::*_distribution (their output differs between standard libraries).
#pragma once
#include <cstdint>
#include <cstddef>

namespace sim {

inline uint64_t splitmix64(uint64_t &x) {
    uint64_t z = (x += 0x9e3779b97f4a7c15ULL);
    z = (z ^ (z >> 30)) * 0xbf58476d1ce4e5b9ULL;
    z = (z ^ (z >> 27)) * 0x94d049bb133111ebULL;
    return z ^ (z >> 31);
}

// seed of run i derived from the batch seed
inline uint64_t deriveSeed(uint64_t base, uint64_t i) {
    uint64_t x = base ^ (0xd1b54a32d192ed03ULL * (i + 1));
    splitmix64(x);
    return splitmix64(x);
}

struct Rng {
    uint64_t s[4];
    explicit Rng(uint64_t seed = 1) { reseed(seed); }
    void reseed(uint64_t seed) {
        uint64_t x = seed;
        for (int i = 0; i < 4; ++i)
            s[i] = splitmix64(x);
    }
    static uint64_t rotl(uint64_t x, int k) { return (x << k) | (x >> (64 - k)); }
    uint64_t next() {
        const uint64_t result = rotl(s[1] * 5, 7) * 9;
        const uint64_t t = s[1] << 17;
        s[2] ^= s[0];
        s[3] ^= s[1];
        s[1] ^= s[2];
        s[0] ^= s[3];
        s[2] ^= t;
        s[3] = rotl(s[3], 45);
        return result;
    }
    // uniform in [0,n) (n>0); modulo bias is irrelevant for n << 2^64
    uint64_t below(uint64_t n) { return n ? next() % n : 0; }
    // inclusive range
    int64_t range(int64_t lo, int64_t hi) { return lo + (int64_t)below((uint64_t)(hi - lo + 1)); }
    bool chance(unsigned num, unsigned den) { return below(den) < num; }
    // permille probability
    bool pm(unsigned p) { return below(1000) < p; }
};

} // namespace sim
