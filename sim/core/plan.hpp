// Plan / replay file: everything one simulated run does, drawn from one seed before anything executes.
#pragma once
#include "digest.hpp"
#include "json.hpp"
#include <map>
#include <string>
#include <vector>

namespace sim {

// One operation. Arguments are *selectors* interpreted against the state at execution time
// (vertex = a mod current size, ...), so that removing any subset of operations leaves a meaningful plan.
struct Op {
    std::string k;             // kind
    int64_t a = 0, b = 0;      // vertex selectors / offsets
    int64_t x = 0, y = 0;      // label index, multiplicity, delta, entry index / flags
    std::string s;             // literal bytes (hand-made files), hex encoded in JSON
    Json toJson() const {
        Json j = Json::O();
        j.set("k", Json::S(k));
        if (a) j.set("a", Json::I(a));
        if (b) j.set("b", Json::I(b));
        if (x) j.set("x", Json::I(x));
        if (y) j.set("y", Json::I(y));
        if (!s.empty()) j.set("s", Json::S(toHex(s)));
        return j;
    }
    static Op fromJson(const Json &j) {
        Op o;
        o.k = j.gets("k");
        o.a = j.geti("a");
        o.b = j.geti("b");
        o.x = j.geti("x");
        o.y = j.geti("y");
        o.s = fromHex(j.gets("s"));
        return o;
    }
};

struct Plan {
    std::string profile;  // property profile that generated it (C01 ... C19)
    uint64_t seed = 0;
    std::string cls;      // LD LU DM UM DW UW STEP
    std::string lab;      // label type name for LD/LU ("none","int",...)
    int64_t n0 = 0;       // initial size
    std::map<std::string, int64_t> cfg; // swarm configuration (informational + flags read by executor)
    std::vector<Op> ops;
    // race phase (C18): per task op lists and the literal pick sequence
    std::vector<std::vector<Op>> tasks;
    std::vector<int64_t> sched;

    int64_t c(const std::string &k, int64_t d = 0) const {
        auto it = cfg.find(k);
        return it == cfg.end() ? d : it->second;
    }

    Json toJson() const {
        Json j = Json::O();
        j.set("format", Json::I(1));
        j.set("profile", Json::S(profile));
        j.set("seed", Json::S(std::to_string(seed)));
        j.set("cls", Json::S(cls));
        j.set("lab", Json::S(lab));
        j.set("n0", Json::I(n0));
        Json c = Json::O();
        for (auto &kv : cfg) c.set(kv.first, Json::I(kv.second));
        j.set("cfg", c);
        Json o = Json::A();
        for (auto &op : ops) o.a.push_back(op.toJson());
        j.set("ops", o);
        if (!tasks.empty()) {
            Json t = Json::A();
            for (auto &tl : tasks) {
                Json l = Json::A();
                for (auto &op : tl) l.a.push_back(op.toJson());
                t.a.push_back(l);
            }
            j.set("tasks", t);
            Json s = Json::A();
            for (auto v : sched) s.a.push_back(Json::I(v));
            j.set("sched", s);
        }
        return j;
    }
    static Plan fromJson(const Json &j) {
        Plan p;
        p.profile = j.gets("profile");
        p.seed = std::stoull(j.gets("seed", "0"));
        p.cls = j.gets("cls");
        p.lab = j.gets("lab");
        p.n0 = j.geti("n0");
        if (auto *c = j.get("cfg"))
            for (auto &kv : c->o) p.cfg[kv.first] = kv.second.t == Json::BOOL ? kv.second.b : kv.second.i;
        if (auto *o = j.get("ops"))
            for (auto &e : o->a) p.ops.push_back(Op::fromJson(e));
        if (auto *t = j.get("tasks"))
            for (auto &l : t->a) {
                p.tasks.emplace_back();
                for (auto &e : l.a) p.tasks.back().push_back(Op::fromJson(e));
            }
        if (auto *s = j.get("sched"))
            for (auto &e : s->a) p.sched.push_back(e.i);
        return p;
    }
};

// What one run reports.
struct Violation {
    bool set = false;
    std::string prop;   // property charged
    std::string cls;    // violation class: prop/oracle/opkind/class<label>
    int64_t step = -1;
    std::string msg;
};

struct Counters {
    std::map<std::string, int64_t> m;
    void inc(const std::string &k, int64_t d = 1) { m[k] += d; }
    void merge(const Counters &o) { for (auto &kv : o.m) m[kv.first] += kv.second; }
    Json toJson() const {
        Json j = Json::O();
        for (auto &kv : m) j.set(kv.first, Json::I(kv.second));
        return j;
    }
};

struct RunResult {
    uint64_t digest = 0;     // canonical event digest (cross-build comparable)
    uint64_t rawDigest = 0;  // includes implementation-chosen orders (same-build determinism)
    int64_t steps = 0;       // logical steps executed (ops + observer calls)
    uint64_t stateHash = 0;  // canonical hash of the final model state
    bool nontrivial = false; // >=1 effective mutation and >=1 fault fired
    Violation v;
    std::vector<Violation> others; // violations charged to other properties (logged, not failed on)
    Counters faults, probes;
    Json extra = Json::O();
};

} // namespace sim
