/* Seeded serialising scheduler for real threads (C18).
 * One task is runnable at a time; who runs next is read from the plan's literal pick sequence.
 * This translation unit is compiled WITHOUT -fsanitize=thread: its hand-offs create no happens-before
 * edge ThreadSanitizer can see, so accesses of different tasks to shared state stay "unsynchronised"
 * for the race detector while the interleaving itself is decided - and replayable - by the simulator. */
#pragma once
#include <stdint.h>
#ifdef __cplusplus
extern "C" {
#endif
void bgs_init(int ntasks, const int64_t *picks, int npicks);
void bgs_start(void);          /* main thread: release the first task */
void bgs_task_begin(int t);    /* task thread: park until scheduled */
void bgs_yield(int t);         /* task thread: scheduling point */
void bgs_task_end(int t);
long bgs_switches(void);
long bgs_yields(void);
uint64_t bgs_schedule_hash(void);
#ifdef __cplusplus
}
#endif
