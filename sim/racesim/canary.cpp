// TSan canary for C18: a deliberately racy fixture must be reported even though the two reader threads run strictly
// one after the other under the serialising scheduler; a pure fixture must not. Run at the start of every C18 check.
#include "sched.h"
#include <cstdio>
#include <cstring>
#include <thread>
#include <vector>

extern "C" __attribute__((used, visibility("default"))) const char *__tsan_default_options() {
    return "exitcode=66:halt_on_error=1:report_signal_unsafe=0";
}

struct Fixture {
    std::vector<int> data{1, 2, 3, 4};
    mutable long cache = -1; // the kind of thing a const method must not do
    long sumRacy() const {
        if (cache < 0) { long s = 0; for (int v : data) s += v; cache = s; }
        return cache;
    }
    long sumPure() const { long s = 0; for (int v : data) s += v; return s; }
};

int main(int argc, char **argv) {
    bool racy = argc > 1 && !strcmp(argv[1], "racy");
    Fixture f;
    static const int64_t picks[] = {0, 0, 1, 1, 0, 1};
    bgs_init(2, picks, 6);
    long out[2] = {0, 0};
    std::vector<std::thread> th;
    for (int t = 0; t < 2; ++t)
        th.emplace_back([&, t]() {
            bgs_task_begin(t);
            for (int i = 0; i < 3; ++i) { out[t] += racy ? f.sumRacy() : f.sumPure(); bgs_yield(t); }
            bgs_task_end(t);
        });
    bgs_start();
    for (auto &x : th) x.join();
    printf("%ld %ld switches=%ld\n", out[0], out[1], bgs_switches());
    return 0;
}
