// See sched.h. No libstdc++, no pthread primitives, no intercepted libc calls: raw futex via inline asm.
#include "sched.h"
#include <stdlib.h>

#define MAXT 16
static volatile int g_cur = -1;      // task allowed to run (-1: nobody yet, -2: all done)
static volatile int g_alive[MAXT];
static int g_nt = 0;
static const int64_t *g_picks = 0;
static int g_np = 0;
static long g_pi = 0, g_switches = 0, g_yields = 0;
static uint64_t g_hash = 0xcbf29ce484222325ULL;

static long futex(volatile int *addr, int op, int val) {
#if defined(__x86_64__)
    long ret;
    register long r10 __asm__("r10") = 0;
    __asm__ volatile("syscall" : "=a"(ret) : "a"(202L), "D"(addr), "S"((long)op), "d"((long)val), "r"(r10) : "rcx", "r11", "memory");
    return ret;
#else
#error "x86_64 only"
#endif
}
static void waitFor(int t) {
    for (;;) {
        int c = __atomic_load_n(&g_cur, __ATOMIC_SEQ_CST);
        if (c == t) return;
        futex(&g_cur, 0 /*FUTEX_WAIT*/, c);
    }
}
static void setCur(int t) {
    __atomic_store_n(&g_cur, t, __ATOMIC_SEQ_CST);
    futex(&g_cur, 1 /*FUTEX_WAKE*/, 1 << 20);
}
static int choose(void) {
    int alive = 0;
    for (int i = 0; i < g_nt; ++i) alive += g_alive[i] ? 1 : 0;
    if (!alive) return -2;
    int64_t p = g_np ? g_picks[g_pi % g_np] : 0;
    ++g_pi;
    if (p < 0) p = -p;
    int k = (int)(p % alive);
    for (int i = 0; i < g_nt; ++i)
        if (g_alive[i]) { if (k == 0) { g_hash = (g_hash ^ (uint64_t)(i + 1)) * 0x100000001b3ULL; return i; } --k; }
    return -2;
}

extern "C" {
void bgs_init(int ntasks, const int64_t *picks, int npicks) {
    if (ntasks > MAXT) abort();
    g_nt = ntasks; g_picks = picks; g_np = npicks;
    g_pi = 0; g_switches = 0; g_yields = 0; g_hash = 0xcbf29ce484222325ULL;
    for (int i = 0; i < MAXT; ++i) g_alive[i] = i < ntasks;
    __atomic_store_n(&g_cur, -1, __ATOMIC_SEQ_CST);
}
void bgs_start(void) { setCur(choose()); }
void bgs_task_begin(int t) { waitFor(t); }
void bgs_yield(int t) {
    ++g_yields;
    int next = choose();
    if (next != t) {
        ++g_switches;
        setCur(next);
        waitFor(t);
    }
}
void bgs_task_end(int t) {
    g_alive[t] = 0;
    setCur(choose());
}
long bgs_switches(void) { return g_switches; }
long bgs_yields(void) { return g_yields; }
uint64_t bgs_schedule_hash(void) { return g_hash; }
}
