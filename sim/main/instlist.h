// name, class key, label key  (adapters are given to inst.cpp by the Makefile)
#define GS_INST_LIST(X) \
  X(run_LD_none,"LD","none") X(run_LD_int,"LD","int") X(run_LD_unsigned,"LD","unsigned") X(run_LD_double,"LD","double") \
  X(run_LD_char,"LD","char") X(run_LD_string,"LD","string") X(run_LD_struct,"LD","struct") \
  X(run_LD_i8,"LD","i8") X(run_LD_u8,"LD","u8") X(run_LD_i16,"LD","i16") X(run_LD_u16,"LD","u16") \
  X(run_LD_i64,"LD","i64") X(run_LD_u64,"LD","u64") X(run_LD_float,"LD","float") X(run_LD_empty,"LD","empty") \
  X(run_LU_none,"LU","none") X(run_LU_int,"LU","int") X(run_LU_unsigned,"LU","unsigned") X(run_LU_double,"LU","double") \
  X(run_LU_char,"LU","char") X(run_LU_string,"LU","string") X(run_LU_struct,"LU","struct") \
  X(run_LU_i8,"LU","i8") X(run_LU_u8,"LU","u8") X(run_LU_i16,"LU","i16") X(run_LU_u16,"LU","u16") \
  X(run_LU_i64,"LU","i64") X(run_LU_u64,"LU","u64") X(run_LU_float,"LU","float") X(run_LU_empty,"LU","empty") \
  X(run_DM,"DM","none") X(run_UM,"UM","none") X(run_DW,"DW","none") X(run_UW,"UW","none") X(run_STEP,"STEP","none")
