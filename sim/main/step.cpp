#include "../stepsim/stepsim.hpp"
void run_STEP(const sim::Plan &p, sim::RunResult &r, gs::Env &e) { gs::runStepPlan(p, r, e); }
