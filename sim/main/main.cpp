// bgsim worker: loops over run indices (one seed = one exactly repeatable run), or executes one plan file.
#include <string>
// Defined BEFORE any BaseGraph header is included: objects of a translation unit are initialised in order of definition, so this
// one's constructor (body further down) runs before the namespace-scope constants of fileio.hpp are initialised - the situation of
// a client that writes or loads a graph from the constructor of a global object.
namespace bgsim_early {
struct Early {
    Early();
    std::string bytes;
    bool roundTrip = false;
    bool completed = false; // false: the scratch file could not be written or read in this environment (nothing is judged then)
};
static Early g_early;
} // namespace bgsim_early
#include <csignal>
#include <cstdio>
#include <cstdlib>
#include <cstring>
#include <exception>
#include <fstream>
#include <set>
#include <string>
#include <sys/stat.h>
#include <sys/resource.h>
#include <sys/time.h>
#include <unistd.h>
#include <ftw.h>
#include <chrono>

#include "../core/plan.hpp"
#include "../core/rng.hpp"
#include "../graphsim/runner.hpp"
#include "../graphsim/genplan.hpp"
#include "../iosim/wrap.hpp"
#include "instlist.h"

#define X(NAME, CLS, LAB) void NAME(const sim::Plan &, sim::RunResult &, gs::Env &);
GS_INST_LIST(X)
#undef X

typedef void (*RunFn)(const sim::Plan &, sim::RunResult &, gs::Env &);
static RunFn lookup(const std::string &cls, const std::string &lab) {
#define X(NAME, CLS, LAB) if (cls == CLS && (lab == LAB || (cls != "LD" && cls != "LU"))) return &NAME;
    GS_INST_LIST(X)
#undef X
    return nullptr;
}

// sanitizer option hooks: every abnormal end has a distinct exit code
extern "C" __attribute__((used, visibility("default"))) const char *__asan_default_options() {
    // max_allocation_size_mb / hard_rss_limit_mb: a loader that invents a huge index must end the run, not eat the machine
    return "exitcode=77:detect_leaks=0:abort_on_error=0:allocator_may_return_null=0:detect_stack_use_after_return=0:"
           "max_allocation_size_mb=3072:hard_rss_limit_mb=8192";
}
extern "C" __attribute__((used, visibility("default"))) const char *__ubsan_default_options() {
    return "halt_on_error=1:exitcode=77:print_stacktrace=0";
}
extern "C" __attribute__((used, visibility("default"))) const char *__tsan_default_options() {
    return "exitcode=66:halt_on_error=1:report_signal_unsafe=0:second_deadlock_stack=0";
}

#if defined(__SANITIZE_ADDRESS__) || defined(__SANITIZE_THREAD__)
#define BGSIM_SANITIZED 1
#elif defined(__has_feature)
#if __has_feature(address_sanitizer) || __has_feature(thread_sanitizer)
#define BGSIM_SANITIZED 1
#endif
#endif
#ifndef BGSIM_SANITIZED
#define BGSIM_SANITIZED 0
#endif

static long g_watchdogCpuS = BGSIM_SANITIZED ? 120 : 45;
static std::string g_dir;
bgsim_early::Early::Early() {
    const std::string p = "/dev/shm/bgsim.early." + std::to_string((long)getpid());
    try {
        BaseGraph::LabeledDirectedGraph<int> g(3);
        g.addEdge(1, 2, 300);
        BaseGraph::io::writeBinaryEdgeList(g, p);
        gs::readFileBytes(p, bytes);
        auto h = BaseGraph::io::loadBinaryEdgeList<BaseGraph::LabeledDirectedGraph, int>(p);
        roundTrip = h.getSize() == 3 && h.getEdgeNumber() == 1 && h.hasEdge(1, 2, 300);
        completed = true;
    } catch (...) {}
    remove(p.c_str());
}
namespace simdisk {
const std::string &earlyBytes() { return bgsim_early::g_early.bytes; }
bool earlyRoundTrip() { return bgsim_early::g_early.roundTrip; }
bool earlyCompleted() { return bgsim_early::g_early.completed; }
} // namespace simdisk
static int rmOne(const char *p, const struct stat *, int, struct FTW *) { return remove(p); }
static void cleanup() {
    if (!g_dir.empty()) nftw(g_dir.c_str(), rmOne, 16, FTW_DEPTH | FTW_PHYS);
}
static void onAbort(int) {
    // libstdc++ debug-mode assertion / std::abort: leave with a distinct code (the scratch dir is removed by the driver)
    _exit(78);
}
static void onTerminate() {
    fprintf(stderr, "bgsim: std::terminate (uncaught exception)\n");
    _exit(79);
}

static sim::Json violationJson(const sim::Violation &v) {
    sim::Json j = sim::Json::O();
    j.set("prop", sim::Json::S(v.prop));
    j.set("cls", sim::Json::S(v.cls));
    j.set("step", sim::Json::I(v.step));
    j.set("msg", sim::Json::S(v.msg));
    return j;
}

static bool runOne(const sim::Plan &plan, gs::Env &env, sim::RunResult &res) {
    RunFn f = lookup(plan.cls, plan.lab);
    if (!f) {
        fprintf(stderr, "bgsim: no instantiation for %s/%s\n", plan.cls.c_str(), plan.lab.c_str());
        exit(2);
    }
    if (env.dirty) { // one run = a function of its plan: nothing a previous run wrote may be visible
        nftw(g_dir.c_str(), rmOne, 16, FTW_DEPTH | FTW_PHYS);
        mkdir(g_dir.c_str(), 0700);
        env.dirty = false;
    }
    // watchdog: a run that hangs ends with a signal and is reported as such. The budget is CPU time of this process
    // (ITIMER_PROF -> SIGPROF), so that a busy machine cannot fake a hang; a generous wall-clock alarm catches runs that
    // block without using CPU (parked reader threads).
    {
        struct itimerval tv;
        memset(&tv, 0, sizeof tv);
        tv.it_value.tv_sec = g_watchdogCpuS;
        setitimer(ITIMER_PROF, &tv, nullptr);
        alarm((unsigned)(g_watchdogCpuS * 10));
    }
    f(plan, res, env);
    {
        struct itimerval tv;
        memset(&tv, 0, sizeof tv);
        setitimer(ITIMER_PROF, &tv, nullptr);
        alarm(0);
    }
    return !res.v.set;
}

static std::string resultLine(int64_t idx, const sim::Plan &plan, const sim::RunResult &res) {
    sim::Json j = sim::Json::O();
    j.set("i", sim::Json::I(idx));
    j.set("s", sim::Json::S(std::to_string(plan.seed)));
    j.set("c", sim::Json::S(plan.cls + ":" + plan.lab));
    j.set("d", sim::Json::S(sim::hex64(res.digest)));
    j.set("r", sim::Json::S(sim::hex64(res.rawDigest)));
    j.set("n", sim::Json::I(res.steps));
    j.set("st", sim::Json::S(sim::hex64(res.stateHash)));
    j.set("nt", sim::Json::I(res.nontrivial ? 1 : 0));
    j.set("v", res.v.set ? violationJson(res.v) : sim::Json());
    if (!res.others.empty()) {
        sim::Json o = sim::Json::A();
        for (auto &v : res.others) o.a.push_back(violationJson(v));
        j.set("o", o);
    }
    if (!res.extra.o.empty()) j.set("x", res.extra);
    return j.str();
}

int main(int argc, char **argv) {
    std::string profile = "C01", planFile, tier = "quick";
    uint64_t base = 1;
    int64_t start = 0, end = 0, stride = 1, gen = -1;
    long deadlineMs = 0;
    bool trace = false, wild = false, noRlimit = false;
    for (int i = 1; i < argc; ++i) {
        std::string a = argv[i];
        auto next = [&]() -> std::string { if (i + 1 >= argc) { fprintf(stderr, "missing value for %s\n", a.c_str()); exit(2); } return argv[++i]; };
        if (a == "--profile") profile = next();
        else if (a == "--tier") tier = next();
        else if (a == "--base") base = std::stoull(next());
        else if (a == "--range") { std::string r = next(); if (sscanf(r.c_str(), "%ld:%ld:%ld", &start, &end, &stride) != 3) { fprintf(stderr, "bad --range\n"); return 2; } }
        else if (a == "--plan") planFile = next();
        else if (a == "--gen") gen = std::stoll(next());
        else if (a == "--trace") trace = true;
        else if (a == "--wild") wild = true;
        else if (a == "--no-rlimit") noRlimit = true;
        else if (a == "--watchdog-s") g_watchdogCpuS = std::stol(next());
        else if (a == "--deadline-ms") deadlineMs = std::stol(next());
        else { fprintf(stderr, "unknown argument %s\n", a.c_str()); return 2; }
    }
    // host assumptions of the reference codecs
    { unsigned x = 1; if (*(unsigned char *)&x != 1) { fprintf(stderr, "little-endian host required\n"); return 2; } }
    const bool thorough = tier == "thorough";
    if (gen >= 0) {
        sim::Plan p = gs::genPlan(sim::deriveSeed(base, (uint64_t)gen), profile, thorough);
        if (wild) p.cfg["wild"] = 1;
        printf("%s\n", p.toJson().str().c_str());
        return 0;
    }
    signal(SIGABRT, onAbort);
    std::set_terminate(onTerminate);
    // wild = full malformed alphabet: a correct loader may ask for huge allocations; bad_alloc is then a legitimate "throws".
    // Every uninstrumented worker gets an address-space cap so that a runaway allocation ends as bad_alloc.
    if (!BGSIM_SANITIZED && !noRlimit) {
        struct rlimit rl; rl.rlim_cur = rl.rlim_max = (wild ? 2UL : 6UL) << 30;
        setrlimit(RLIMIT_AS, &rl);
    }
    g_dir = "/dev/shm/bgsim." + std::to_string((long)getpid());
    mkdir(g_dir.c_str(), 0700);
    atexit(cleanup);
    gs::Env env;
    env.dir = g_dir;
    env.trace = trace;
    { std::ifstream probe("/dev/null"); (void)probe.good(); } // routes one fopen64 through the wrap layer if it is linked

    if (!planFile.empty()) {
        std::ifstream in(planFile);
        if (!in) { fprintf(stderr, "cannot read %s\n", planFile.c_str()); return 2; }
        std::string text((std::istreambuf_iterator<char>(in)), std::istreambuf_iterator<char>());
        sim::Plan p = sim::Plan::fromJson(sim::Json::parse(text));
        sim::RunResult res;
        runOne(p, env, res);
        printf("%s\n", resultLine(-1, p, res).c_str());
        fflush(stdout);
        return 0;
    }
    std::set<uint64_t> states;
    sim::Counters faults, probes;
    int64_t runs = 0, logical = 0;
    auto t0 = std::chrono::steady_clock::now();
    for (int64_t idx = start; idx < end; idx += stride) {
        if (deadlineMs > 0 && (runs & 15) == 0) {
            auto ms = std::chrono::duration_cast<std::chrono::milliseconds>(std::chrono::steady_clock::now() - t0).count();
            if (ms > deadlineMs) break; // the cap only stops *starting* new runs
        }
        sim::Plan p = gs::genPlan(sim::deriveSeed(base, (uint64_t)idx), profile, thorough);
        if (wild) p.cfg["wild"] = 1;
        sim::RunResult res;
        runOne(p, env, res);
        ++runs;
        logical += res.steps;
        faults.merge(res.faults);
        probes.merge(res.probes);
        if (states.size() < 4000000) states.insert(res.stateHash);
        printf("%s\n", resultLine(idx, p, res).c_str());
        fflush(stdout);
        if (res.extra.geti("poison")) {
            // memory may have been corrupted by an accepted invalid call: report what was counted and ask for a restart
            sim::Json s = sim::Json::O();
            s.set("summary", sim::Json::I(1)); s.set("runs", sim::Json::I(runs)); s.set("logical", sim::Json::I(logical));
            s.set("faults", faults.toJson()); s.set("probes", probes.toJson()); s.set("wrap", sim::Json::I(simdisk::linked() ? 1 : 0));
            s.set("next", sim::Json::I(idx + stride));
            printf("%s\n", s.str().c_str());
            fflush(stdout);
            cleanup();
            _exit(3);
        }
    }
    sim::Json s = sim::Json::O();
    s.set("summary", sim::Json::I(1));
    s.set("runs", sim::Json::I(runs));
    s.set("logical", sim::Json::I(logical));
    s.set("faults", faults.toJson());
    s.set("probes", probes.toJson());
    s.set("wrap", sim::Json::I(simdisk::linked() ? 1 : 0));
    sim::Json w = sim::Json::O();
    simdisk::Ctl &c = simdisk::ctl();
    w.set("opens", sim::Json::I(c.opens)); w.set("open_fails", sim::Json::I(c.openFails)); w.set("reads", sim::Json::I(c.reads));
    w.set("read_eio", sim::Json::I(c.readFaults)); w.set("short_reads", sim::Json::I(c.shortReads)); w.set("read_eintr", sim::Json::I(c.eintrs)); w.set("seeks_refused", sim::Json::I(c.seeksRefused)); w.set("write_enospc", sim::Json::I(c.writeFaults));
    w.set("writes", sim::Json::I(c.writes)); w.set("writevs", sim::Json::I(c.writevs)); w.set("bytes_written", sim::Json::I(c.bytesWritten));
    s.set("wrapstats", w);
    printf("%s\n", s.str().c_str());
    fflush(stdout);
    return 0;
}
