// One Runner instantiation per translation unit (compiled many times with different -DGS_NAME / -DGS_ADAPTER).
#include "../graphsim/race.hpp"

void GS_NAME(const sim::Plan &p, sim::RunResult &r, gs::Env &e) {
    gs::Runner<GS_ADAPTER> run(p, r, e);
    run.run();
}
