// Const operations on a graph (read-only workload of C17, reader tasks of C18) and the
// instrumented graph type Counting<Inner>: the seam the template algorithms already offer.
#pragma once
#include "reject.hpp"
#include "iocodec.hpp"
#include <unordered_map>
#include <unordered_set>

namespace gs {

struct StepBudgetExceeded : std::exception {
    const char *what() const noexcept override { return "step budget exceeded"; }
};

// Forwards the interface the path algorithms use to a real BaseGraph object; every neighbourhood
// scan ticks the logical clock, may yield to the scheduler, and is refused once the budget is spent.
template <class Inner>
struct Counting {
    const Inner *g;
    long *clock;
    long budget;                  // <0: unlimited
    const std::function<void()> *yield;
    Counting(const Inner &in, long *clk, long b = -1, const std::function<void()> *y = nullptr) : g(&in), clock(clk), budget(b), yield(y) {}
    size_t getSize() const { return g->getSize(); }
    const BaseGraph::Successors &getOutNeighbours(VertexIndex v) const {
        ++*clock;
        if (budget >= 0 && *clock > budget) throw StepBudgetExceeded();
        if (yield && *yield) (*yield)();
        return g->getOutNeighbours(v);
    }
    template <class I = Inner>
    auto getEdgeWeight(VertexIndex a, VertexIndex b) const -> decltype(std::declval<const I &>().getEdgeWeight(a, b)) {
        return g->getEdgeWeight(a, b);
    }
    BaseGraph::VertexIterator begin() const { return g->begin(); }
    BaseGraph::VertexIterator end() const { return g->end(); }
};

inline void foldPath(sim::Digest &d, const std::list<VertexIndex> &p) {
    d.u64(p.size());
    for (auto v : p) d.u64(v);
}

template <class A>
uint64_t Runner<A>::constOp(const G &gr, const Model &mo, const sim::Op &op, const std::string &tag) {
    namespace alg = BaseGraph::algorithms;
    sim::Digest keepD = dg, keepR = raw;
    dg = sim::Digest(); raw = sim::Digest();
    const unsigned n = mo.n;
    const unsigned va = modn(op.a, n), vb = modn(op.b, n);
    long clock = 0;
    const std::function<void()> *y = env.yield ? &env.yield : nullptr;
    Counting<G> cg(gr, &clock, -1, y);
    int which = (int)modn(op.x, 18);
    bool weightsOk = true;
    if constexpr (kind == WEIGHTED) for (auto &kv : mo.e) if (kv.second.val < 0) weightsOk = false;
    if (kind == WEIGHTED && weightsOk && (which == 1 || which == 2 || which == 5)) which = 7; // weighted classes: mostly Dijkstra
    if ((which == 7) && (kind != WEIGHTED || !weightsOk)) which = 1;
    if (n == 0 && which >= 1 && which <= 7) which = 0;
    if ((which == 8 || which == 9) && !(kind == SIMPLE || kind == LABELED)) which = 12;
    if ((which == 10 || which == 11 || which == 14) && !(kind == SIMPLE || kind == LABELED)) which = 13;
    res.probes.inc("constop_" + std::to_string(which));
    dg.u64((uint64_t)which);
    try {
        switch (which) {
        case 0: {
            size_t pend = pending.size();
            sweep(gr, mo, "constsweep");
            if (pending.size() != pend) { dg.tag("MISMATCH"); pending.resize(pend); }
            break;
        }
        case 1: {
            auto r = alg::findVertexPredecessors(cg, va);
            foldVec(dg, r.first); foldVec(dg, r.second);
            break;
        }
        case 2: {
            auto r = alg::findAllVertexPredecessors(cg, va);
            foldVec(dg, r.first);
            for (auto &l : r.second) foldPath(dg, l);
            break;
        }
        case 3: foldPath(dg, alg::findGeodesics(cg, va, vb)); break;
        case 4: {
            auto r = alg::findAllGeodesics(cg, va, vb);
            dg.u64(r.size());
            for (auto &p : r) foldPath(dg, p);
            break;
        }
        case 5: {
            auto r = alg::findGeodesicsFromVertex(cg, va);
            for (auto &p : r) foldPath(dg, p);
            break;
        }
        case 6: {
            auto r = alg::findAllGeodesicsFromVertex(cg, va);
            for (auto &ps : r) { dg.u64(ps.size()); for (auto &p : ps) foldPath(dg, p); }
            break;
        }
        case 7: {
            if constexpr (kind == WEIGHTED) {
                auto r = alg::findGeodesicsDijkstra(cg, va);
                for (double d : r.first) dg.dbl(d);
                foldVec(dg, r.second);
            }
            break;
        }
        case 8:
        case 9: {
            if constexpr (kind == SIMPLE || kind == LABELED) {
                std::unordered_set<VertexIndex> s;
                for (unsigned i = 0; i < n; ++i) if ((op.b >> (i % 8)) & 1) s.insert(i); // 8-bit mask repeated over the vertices
                if (which == 8) {
                    G sub = alg::getSubgraph(gr, s);
                    dg.u64(sub.getSize()); dg.u64(sub.getEdgeNumber());
                    std::vector<Key> es;
                    for (auto e : sub.edges()) es.push_back(Key(e.first, e.second));
                    std::sort(es.begin(), es.end());
                    for (auto &k : es) { dg.u64(k.first); dg.u64(k.second); }
                } else {
                    auto r = alg::getSubgraphWithRemap(gr, s);
                    dg.u64(r.first.getSize()); dg.u64(r.first.getEdgeNumber());
                    // canonical: edges mapped back through the inverse of the (implementation-chosen) remap
                    std::vector<unsigned> inv(r.first.getSize(), 0);
                    for (auto &kv : r.second) if (kv.second < inv.size()) inv[kv.second] = kv.first;
                    std::vector<Key> es;
                    for (auto e : r.first.edges()) {
                        Key k(inv[e.first], inv[e.second]);
                        if (!directed && k.first > k.second) std::swap(k.first, k.second);
                        es.push_back(k);
                    }
                    std::sort(es.begin(), es.end());
                    for (auto &k : es) { dg.u64(k.first); dg.u64(k.second); }
                }
            }
            break;
        }
        case 10:
        case 11: {
            if constexpr (kind == SIMPLE || kind == LABELED) {
                if constexpr (directed) {
                    if (which == 10) {
                        G rev = gr.getReversedGraph();
                        dg.u64(rev.getEdgeNumber());
                        for (unsigned i = 0; i < n; ++i) { std::vector<unsigned> v(rev.getOutNeighbours(i).begin(), rev.getOutNeighbours(i).end()); std::sort(v.begin(), v.end()); foldVec(dg, v); }
                    } else {
                        BaseGraph::LabeledUndirectedGraph<L> u(gr);
                        dg.u64(u.getEdgeNumber());
                        for (unsigned i = 0; i < n; ++i) { std::vector<unsigned> v(u.getOutNeighbours(i).begin(), u.getOutNeighbours(i).end()); std::sort(v.begin(), v.end()); foldVec(dg, v); }
                    }
                } else {
                    BaseGraph::LabeledDirectedGraph<L> d = gr.getDirectedGraph();
                    dg.u64(d.getEdgeNumber());
                    for (unsigned i = 0; i < n; ++i) { std::vector<unsigned> v(d.getOutNeighbours(i).begin(), d.getOutNeighbours(i).end()); std::sort(v.begin(), v.end()); foldVec(dg, v); }
                    if (which == 11) { BaseGraph::LabeledUndirectedGraph<L> back(d); dg.u64(back.getEdgeNumber()); dg.byte(back == gr); }
                }
            }
            break;
        }
        case 12: {
            // copy construction; equality with the shared graph on either side, against an equal and a slightly different graph
            G c(gr);
            dg.byte(c == gr); dg.byte(c != gr);
            dg.byte(gr == c); dg.byte(gr != c);
            dg.byte(gr == gr);
            if (n > 0) {
                G d(gr);
                if (d.hasEdge(va, vb)) d.removeEdge(va, vb);
                else if constexpr (kind == WEIGHTED) d.addEdge(va, vb, 1.5);
                else d.addEdge(va, vb);
                dg.byte(gr == d); dg.byte(d == gr); dg.byte(gr != d);
            }
            dg.u64(c.getEdgeNumber());
            break;
        }
        case 13: {
            std::ostringstream os;
            os << gr;
            dg.str(os.str());
            break;
        }
        case 14: {
            if constexpr (kind == SIMPLE || kind == LABELED) { env.dirty = true; dg.u64(writeBoth(gr, env.dir + "/" + tag)); }
            break;
        }
        case 16: {
            // const calls that are rejected: the exception text each thread gets must be the single-threaded one
            const unsigned bads[3] = {n, n + 1, 4294967295u};
            for (unsigned bad : bads) {
                try { (void)gr.getOutNeighbours(bad); dg.tag("returned"); } catch (const std::exception &ex) { dg.tag(ex.what()); }
                try { (void)gr.hasEdge(va, bad); dg.tag("returned"); } catch (const std::exception &ex) { dg.tag(ex.what()); }
                try { (void)gr.hasEdge(bad, vb); dg.tag("returned"); } catch (const std::exception &ex) { dg.tag(ex.what()); }
            }
            break;
        }
        case 17: {
            // hand-written edge loop that asks the graph for edges() again at every step (temporaries)
            size_t c = 0;
            for (auto it = gr.edges().begin(); it != gr.edges().end(); ++it) { auto e = *it; dg.u64(e.first); dg.u64(e.second); ++c; }
            dg.u64(c);
            break;
        }
        case 15: {
            // edge iteration with post-increment; begin()==end() iff no edge
            auto es = gr.edges();
            auto it = es.begin();
            auto en = es.end();
            size_t c = 0;
            dg.byte(it == en);
            while (it != en) { auto e = *it; dg.u64(e.first); dg.u64(e.second); it++; ++c; }
            dg.u64(c);
            break;
        }
        }
    } catch (const std::exception &ex) {
        res.probes.inc("constop_exception");
        dg.tag("EXC"); dg.tag(ex.what());
    }
    dg.u64((uint64_t)clock);
    uint64_t h = dg.h;
    dg = keepD; raw = keepR;
    return h;
}

template <class A>
void Runner<A>::doAlg(const sim::Op &op) {
    uint64_t h = constOp(*g, m, op, "alg");
    dg.u64(h);
    res.faults.inc("const_op");
}

} // namespace gs
