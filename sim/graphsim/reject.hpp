// C07: the "reject" fault - one public entry point called with a bad argument.
// Required effect: documented exception type; observer sweep identical before and after; model untouched.
#pragma once
#include "runner.hpp"
#include "BaseGraph/algorithms/paths.hpp"
#ifndef GS_TOPOLOGY_INCLUDED
#define GS_TOPOLOGY_INCLUDED
#include "BaseGraph/algorithms/topology.hpp" // has no include guard of its own
#endif
#include <climits>
#include <unordered_set>

#if defined(__SANITIZE_ADDRESS__)
#define GS_MEMORY_CHECKED 1
#elif defined(__has_feature)
#if __has_feature(address_sanitizer)
#define GS_MEMORY_CHECKED 1
#endif
#endif
#ifndef GS_MEMORY_CHECKED
#define GS_MEMORY_CHECKED 0
#endif

namespace gs {

enum RejPrep { P_RANGE, P_SHRINK, P_MISSING };

template <class A>
struct RejTable {
    typedef typename A::G G;
    typedef typename A::Lab L;
    struct Entry {
        std::string name;
        int arity;
        bool hasFlag;
        RejPrep prep;
        std::function<void(G &, unsigned, unsigned, bool, const L &)> call;
    };
    std::vector<Entry> e;
    void add(const char *name, int arity, bool hasFlag, RejPrep prep, std::function<void(G &, unsigned, unsigned, bool, const L &)> f) {
        e.push_back(Entry{name, arity, hasFlag, prep, std::move(f)});
    }
    RejTable() {
        namespace alg = BaseGraph::algorithms;
        const Kind kind = A::kind;
        const bool directed = A::directed;
        (void)directed;
        // ---- entry points common to all eight classes
        add("hasEdge", 2, false, P_RANGE, [](G &g, unsigned a, unsigned b, bool, const L &) { (void)g.hasEdge(a, b); });
        add("removeEdge", 2, false, P_RANGE, [](G &g, unsigned a, unsigned b, bool, const L &) { g.removeEdge(a, b); });
        add("getOutNeighbours", 1, false, P_RANGE, [](G &g, unsigned a, unsigned, bool, const L &) { (void)g.getOutNeighbours(a); });
        add("removeVertexFromEdgeList", 1, false, P_RANGE, [](G &g, unsigned a, unsigned, bool, const L &) { g.removeVertexFromEdgeList(a); });
        add("resize(smaller)", 1, false, P_SHRINK, [](G &g, unsigned a, unsigned, bool, const L &) { g.resize(a); });
        if constexpr (A::directed) {
            add("getOutDegree", 1, false, P_RANGE, [](G &g, unsigned a, unsigned, bool, const L &) { (void)g.getOutDegree(a); });
            add("getInDegree", 1, false, P_RANGE, [](G &g, unsigned a, unsigned, bool, const L &) { (void)g.getInDegree(a); });
        } else {
            add("getDegree", 1, true, P_RANGE, [](G &g, unsigned a, unsigned, bool f, const L &) { (void)g.getDegree(a, f); });
        }
        if constexpr (kind == SIMPLE || kind == LABELED) {
            add("addEdge(label)", 2, true, P_RANGE, [](G &g, unsigned a, unsigned b, bool f, const L &l) { g.addEdge(a, b, l, f); });
            add("addEdge", 2, true, P_RANGE, [](G &g, unsigned a, unsigned b, bool f, const L &) { g.addEdge(a, b, f); });
            add("hasEdge(label)", 2, false, P_RANGE, [](G &g, unsigned a, unsigned b, bool, const L &l) { (void)g.hasEdge(a, b, l); });
            add("getEdgeLabel", 2, true, P_RANGE, [](G &g, unsigned a, unsigned b, bool f, const L &) { (void)g.getEdgeLabel(a, b, f); });
            add("setEdgeLabel", 2, true, P_RANGE, [](G &g, unsigned a, unsigned b, bool f, const L &l) { g.setEdgeLabel(a, b, l, f); });
            add("assertVertexInRange", 1, false, P_RANGE, [](G &g, unsigned a, unsigned, bool, const L &) { g.assertVertexInRange(a); });
            add("setEdgeLabel(missing,unforced)", 2, false, P_MISSING, [](G &g, unsigned a, unsigned b, bool, const L &l) { g.setEdgeLabel(a, b, l, false); });
            if constexpr (kind == LABELED) {
                add("getEdgeLabel(missing)", 2, false, P_MISSING, [](G &g, unsigned a, unsigned b, bool, const L &) { (void)g.getEdgeLabel(a, b); });
            }
            if constexpr (A::directed) {
                add("addReciprocalEdge(label)", 2, true, P_RANGE, [](G &g, unsigned a, unsigned b, bool f, const L &l) { g.addReciprocalEdge(a, b, l, f); });
                add("addReciprocalEdge", 2, true, P_RANGE, [](G &g, unsigned a, unsigned b, bool f, const L &) { g.addReciprocalEdge(a, b, f); });
            } else {
                add("getNeighbours", 1, false, P_RANGE, [](G &g, unsigned a, unsigned, bool, const L &) { (void)g.getNeighbours(a); });
            }
            // subgraphs: a bad member of S
            add("getSubgraph", 1, true, P_RANGE, [](G &g, unsigned a, unsigned b, bool f, const L &) {
                std::unordered_set<VertexIndex> s;
                if (f) for (unsigned i = 0; i < g.getSize(); ++i) if (i % 3 != 1 || i == b) s.insert(i); // a large valid set plus the bad member
                s.insert(a);
                (void)alg::getSubgraph(g, s);
            });
            add("getSubgraphWithRemap", 1, true, P_RANGE, [](G &g, unsigned a, unsigned b, bool f, const L &) {
                std::unordered_set<VertexIndex> s;
                if (f) for (unsigned i = 0; i < g.getSize(); ++i) if (i % 3 != 1 || i == b) s.insert(i); // a large valid set plus the bad member
                s.insert(a);
                (void)alg::getSubgraphWithRemap(g, s);
            });
            // path searches from / to a bad vertex
            add("findVertexPredecessors", 1, false, P_RANGE, [](G &g, unsigned a, unsigned, bool, const L &) { (void)alg::findVertexPredecessors(g, a); });
            add("findAllVertexPredecessors", 1, false, P_RANGE, [](G &g, unsigned a, unsigned, bool, const L &) { (void)alg::findAllVertexPredecessors(g, a); });
            add("findGeodesics", 2, false, P_RANGE, [](G &g, unsigned a, unsigned b, bool, const L &) { (void)alg::findGeodesics(g, a, b); });
            add("findAllGeodesics", 2, false, P_RANGE, [](G &g, unsigned a, unsigned b, bool, const L &) { (void)alg::findAllGeodesics(g, a, b); });
            add("findGeodesicsFromVertex", 1, false, P_RANGE, [](G &g, unsigned a, unsigned, bool, const L &) { (void)alg::findGeodesicsFromVertex(g, a); });
            add("findAllGeodesicsFromVertex", 1, false, P_RANGE, [](G &g, unsigned a, unsigned, bool, const L &) { (void)alg::findAllGeodesicsFromVertex(g, a); });
            // path reconstruction from the result of a valid search (source a, destination b; at least one of them is bad)
            add("findPathToVertexFromPredecessors", 2, false, P_RANGE, [](G &g, unsigned a, unsigned b, bool, const L &) {
                alg::Predecessors pred;
                if (g.getSize() > 0) pred = alg::findVertexPredecessors(g, a < g.getSize() ? a : 0);
                (void)alg::findPathToVertexFromPredecessors(g, a, b, pred);
            });
            add("findMultiplePathsToVertexFromPredecessors", 2, false, P_RANGE, [](G &g, unsigned a, unsigned b, bool, const L &) {
                alg::MultiplePredecessors pred;
                if (g.getSize() > 0) pred = alg::findAllVertexPredecessors(g, a < g.getSize() ? a : 0);
                (void)alg::findMultiplePathsToVertexFromPredecessors(g, a, b, pred);
            });
            add("findPathToVertexFromPredecessors(destination)", 1, false, P_RANGE, [](G &g, unsigned a, unsigned, bool, const L &) {
                alg::Predecessors pred;
                if (g.getSize() > 0) pred = alg::findVertexPredecessors(g, 0);
                else pred.first.push_back(0); // a table that names a source, so that the call gets as far as the destination
                (void)alg::findPathToVertexFromPredecessors(g, a, pred);
            });
        }
        if constexpr (kind == MULTI) {
            add("addEdge", 2, true, P_RANGE, [](G &g, unsigned a, unsigned b, bool f, const L &) { g.addEdge(a, b, f); });
            add("addMultiedge", 2, true, P_RANGE, [](G &g, unsigned a, unsigned b, bool f, const L &l) { g.addMultiedge(a, b, l, f); }); // multiplicity 0 included: the index must be rejected before the "nothing to add" shortcut
            add("removeMultiedge", 2, false, P_RANGE, [](G &g, unsigned a, unsigned b, bool, const L &l) { g.removeMultiedge(a, b, l); });
            add("getEdgeMultiplicity", 2, false, P_RANGE, [](G &g, unsigned a, unsigned b, bool, const L &) { (void)g.getEdgeMultiplicity(a, b); });
            add("setEdgeMultiplicity", 2, true, P_RANGE, [](G &g, unsigned a, unsigned b, bool f, const L &l) { g.setEdgeMultiplicity(a, b, f ? 0 : (l ? l : 2)); });
            if constexpr (A::directed) {
                add("addReciprocalEdge", 2, true, P_RANGE, [](G &g, unsigned a, unsigned b, bool f, const L &) { g.addReciprocalEdge(a, b, f); });
                add("addReciprocalMultiedge", 2, true, P_RANGE, [](G &g, unsigned a, unsigned b, bool f, const L &l) { g.addReciprocalMultiedge(a, b, l, f); });
            }
            add("findVertexPredecessors(asLabeledGraph)", 1, false, P_RANGE, [](G &g, unsigned a, unsigned, bool, const L &) { (void)alg::findVertexPredecessors(g.asLabeledGraph(), a); });
            add("findAllGeodesics(asLabeledGraph)", 2, false, P_RANGE, [](G &g, unsigned a, unsigned b, bool, const L &) { (void)alg::findAllGeodesics(g.asLabeledGraph(), a, b); });
        }
        if constexpr (kind == WEIGHTED) {
            add("addEdge(weight)", 2, true, P_RANGE, [](G &g, unsigned a, unsigned b, bool f, const L &l) { g.addEdge(a, b, l, f); });
            add("getEdgeWeight", 2, true, P_RANGE, [](G &g, unsigned a, unsigned b, bool f, const L &) { (void)g.getEdgeWeight(a, b, f); });
            add("setEdgeWeight", 2, false, P_RANGE, [](G &g, unsigned a, unsigned b, bool, const L &l) { g.setEdgeWeight(a, b, l); });
            add("hasEdge(label)", 2, false, P_RANGE, [](G &g, unsigned a, unsigned b, bool, const L &l) { (void)g.hasEdge(a, b, l); });
            add("getEdgeWeight(missing)", 2, false, P_MISSING, [](G &g, unsigned a, unsigned b, bool, const L &) { (void)g.getEdgeWeight(a, b); });
            add("findGeodesicsDijkstra", 1, false, P_RANGE, [](G &g, unsigned a, unsigned, bool, const L &) { (void)alg::findGeodesicsDijkstra(g, a); });
            add("findGeodesics(asLabeledGraph)", 2, false, P_RANGE, [](G &g, unsigned a, unsigned b, bool, const L &) { (void)alg::findGeodesics(g.asLabeledGraph(), a, b); });
            add("findAllVertexPredecessors(asLabeledGraph)", 1, false, P_RANGE, [](G &g, unsigned a, unsigned, bool, const L &) { (void)alg::findAllVertexPredecessors(g.asLabeledGraph(), a); });
            if constexpr (A::directed) {
                add("addReciprocalEdge", 2, true, P_RANGE, [](G &g, unsigned a, unsigned b, bool f, const L &) { g.addReciprocalEdge(a, b, f); });
            }
        }
    }
    static const RejTable &get() {
        static const RejTable t;
        return t;
    }
};

template <class A>
void Runner<A>::doReject(const sim::Op &op) {
    const auto &tab = RejTable<A>::get();
    const auto &en = tab.e[modn(op.x, (unsigned)tab.e.size())];
    const unsigned n = m.n;
    unsigned a = n ? modn(op.a >> 4, n) : 0, b = n ? modn(op.b >> 4, n) : 0;
    if (hub >= 0 && (unsigned)hub < n && (op.y & 4)) { a = (unsigned)hub; b = (unsigned)hub; } // the valid argument is the hub
    bool flag = en.hasFlag && (op.y & 1);
    std::string cell = en.name;
    const L lab = labelOf(valArg(op));
    if (en.prep == P_RANGE) {
        static const char *badName[3] = {"size", "size+1", "UINT_MAX"};
        int badKind = (int)modn(op.b, 3);
#if !GS_MEMORY_CHECKED
        // Without a memory checker an unchecked index of size or size+1 corrupts the heap silently and the run stops being
        // a function of its seed; UINT_MAX faults deterministically (or is reported as accepted). Small offsets are
        // exercised by the ASan / debug-mode configurations only.
        badKind = 2;
#endif
        unsigned bad = badKind == 0 ? n : badKind == 1 ? n + 1 : UINT_MAX;
        int pos = (int)modn(op.a, (unsigned)en.arity);
        if (en.arity == 2 && (op.y & 2)) {
            a = bad; b = bad; cell += "|both";
            if (op.y & 8) { // two different out-of-range values
                int k2 = (badKind + 1) % 3;
#if !GS_MEMORY_CHECKED
                k2 = 2;
#endif
                b = k2 == 0 ? n : k2 == 1 ? n + 1 : UINT_MAX;
                if (b != a) cell += "_different";
            }
        }
        else if (pos == 0) { a = bad; cell += "|arg0"; }
        else { b = bad; cell += "|arg1"; }
        cell += std::string("|") + badName[badKind];
    } else if (en.prep == P_SHRINK) {
        if (n == 0) { res.probes.inc("reject_skipped_size0"); return; }
        a = n - 1 - modn(op.a, n);
    } else { // P_MISSING: a pair that is not an edge
        std::vector<Key> absent;
        for (unsigned i = 0; i < n; ++i)
            for (unsigned j = 0; j < n; ++j) {
                if (m.has(i, j)) continue;
                // a pair carrying a documented orphan label (setEdgeLabel force=true) legitimately has a label to return
                if (m.orphan.count(m.key(i, j)) && en.name.rfind("getEdgeLabel", 0) == 0) continue;
                absent.push_back(Key(i, j));
            }
        if (absent.empty()) { res.probes.inc("reject_skipped_no_absent_pair"); return; }
        Key k = absent[modn(op.a * 64 + op.b, (unsigned)absent.size())];
        a = k.first; b = k.second;
    }
    if (en.hasFlag) cell += flag ? "|flag=true" : "|flag=false";
    curOp = "reject:" + en.name;
    if (env.trace) fprintf(stderr, "  reject %s a=%u b=%u flag=%d (n=%u)\n", cell.c_str(), a, b, (int)flag, n);
    const uint64_t before = sweepDigest(*g, m);
    if (!pending.empty()) {
        // state already wrong: charged by the sweep oracles - unless it only concerns hidden state of absent pairs and belongs
        // to another property, in which case the rejected call is still made
        const bool mine = [&] { for (auto &v : pending) if (v.prop == plan.profile) return true; return false; }();
        if (!onlyAbsentPairMismatches() || mine) return;
        settle();
    }
    // operator== sees state no other observer can address (e.g. a map entry under an out-of-range key): a copy taken before
    // the rejected call must still compare equal afterwards
    std::unique_ptr<G> twin(m.n <= 128 ? new G(*g) : nullptr);
    int outcome = 0; // 0 returned normally, 1 documented type, 2 other std::exception, 3 something else
    std::string what;
    try {
        en.call(*g, a, b, flag, lab);
    } catch (const std::out_of_range &ex) {
        outcome = en.prep == P_RANGE ? 1 : 2; what = ex.what();
    } catch (const std::invalid_argument &ex) {
        outcome = en.prep != P_RANGE ? 1 : 2; what = ex.what();
    } catch (const std::exception &ex) {
        outcome = 2; what = ex.what();
    } catch (...) {
        outcome = 3;
    }
    ++faultsFired;
    res.faults.inc("reject");
    res.probes.inc("rej:" + cell);
    if (outcome == 0) {
        mismatch(REJECT, "accepted:" + en.name + (flag ? "(flag)" : ""), cell + " returned normally with a=" + std::to_string(a) + " b=" + std::to_string(b) + " size=" + std::to_string(n));
        res.extra.set("poison", sim::Json::B(true)); // memory may be corrupt: the worker restarts after reporting
        return;
    }
    if (outcome != 1) mismatch(REJECT, "wrong_exception:" + en.name, cell + " threw " + what);
    const uint64_t after = sweepDigest(*g, m);
    if (after != before) mismatch(REJECT, "state_changed:" + en.name, cell);
    else if (twin) {
        // (same vertices, edges and labels as its own pre-call copy, yet unequal: as much a C06 matter as a C07 one)
        const Cat owner = plan.profile == "C06" ? EQ : REJECT;
        try {
            if (!(*g == *twin) || !(*twin == *g)) mismatch(owner, "not_equal_to_pre_call_copy:" + en.name, cell);
        } catch (const std::exception &ex) { mismatch(owner, "not_equal_to_pre_call_copy:" + en.name, ex.what()); }
    }
}

} // namespace gs
