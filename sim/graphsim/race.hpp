// RaceSim (C18): reader tasks on real threads over one shared graph, serialised by the seeded scheduler.
#pragma once
#include "io.hpp"
#include "../racesim/sched.h"
#include <sys/stat.h>
#include <thread>

namespace gs {

inline int &raceTaskId() {
    static thread_local int id = -1;
    return id;
}
inline void raceWriteHook() {
    int t = raceTaskId();
    if (t >= 0) bgs_yield(t);
}

template <class A>
void Runner<A>::racePhase() {
    const int T = (int)plan.tasks.size();
    if (T < 1 || T > 8) return;
    curOp = "race";
    // The readers must meet the shared object COLD: a lazily filled cache inside a const method is only racy while it is
    // empty, and any observer call on the same object beforehand (baseline, sweep) would warm it. So: one last pair of
    // mutating calls that changes nothing (add + remove of an absent pair), no observer on the shared object afterwards,
    // and the single-threaded baseline is computed on a copy taken after that.
    if (m.n > 0) {
        bool touched = false;
        for (unsigned i = 0; i < m.n && !touched; ++i)
            for (unsigned j = 0; j < m.n && !touched; ++j)
                if (!m.has(i, j) && !m.has(j, i)) {
                    if constexpr (kind == WEIGHTED) g->addEdge(i, j, 1.0); else g->addEdge(i, j);
                    g->removeEdge(i, j);
                    touched = true;
                }
        if (touched) res.probes.inc("race_on_cold_object");
    }
    const G &shared = *g;
    std::unique_ptr<G> baseline(new G(*g));
    const Model &mo = m;
    auto runTask = [&](int t, bool threaded, sim::RunResult &tres) {
        std::vector<uint64_t> out;
        Env tenv;
        tenv.dir = env.dir;
        if (threaded) tenv.yield = [t]() { bgs_yield(t); };
        Runner<A> tr(plan, tres, tenv);
        const std::string tag = "t" + std::to_string(t);
        for (auto &op : plan.tasks[(size_t)t]) {
            if (threaded) bgs_yield(t); // operation boundary
            out.push_back(tr.constOp(threaded ? shared : *baseline, mo, op, tag));
        }
        return out;
    };
    // single-threaded baseline
    std::vector<std::vector<uint64_t>> expected((size_t)T), got((size_t)T);
    std::vector<sim::RunResult> tres((size_t)T), sres((size_t)T);
    // concurrent phase FIRST: whatever the library initialises lazily (per object or per process) is then first touched by
    // the readers; the single-threaded baseline (on the copy) is computed afterwards - the results do not depend on the order
    bgs_init(T, plan.sched.empty() ? nullptr : plan.sched.data(), (int)plan.sched.size());
    simdisk::ctl().yieldHook = &raceWriteHook;
    std::vector<std::thread> th;
    for (int t = 0; t < T; ++t)
        th.emplace_back([&, t]() {
            raceTaskId() = t;
            bgs_task_begin(t);
            got[(size_t)t] = runTask(t, true, tres[(size_t)t]);
            raceTaskId() = -1;
            bgs_task_end(t);
        });
    bgs_start();
    for (auto &x : th) x.join();
    simdisk::ctl().yieldHook = nullptr;
    const uint64_t before = sweepDigest(*baseline, mo);
    for (int t = 0; t < T; ++t) expected[(size_t)t] = runTask(t, false, sres[(size_t)t]);
    ++faultsFired;
    res.faults.inc("race_phase");
    res.probes.inc("context_switches", bgs_switches());
    res.probes.inc("yield_points", bgs_yields());
    res.probes.inc("reader_tasks", T);
    res.extra.set("sched", sim::Json::S(sim::hex64(bgs_schedule_hash())));
    res.extra.set("switches", sim::Json::I(bgs_switches()));
    for (int t = 0; t < T; ++t) {
        res.probes.merge(tres[(size_t)t].probes);
        for (size_t i = 0; i < plan.tasks[(size_t)t].size(); ++i) {
            dg.u64(got[(size_t)t][i]);
            if (got[(size_t)t][i] != expected[(size_t)t][i])
                mismatch(RACE, "result_differs_from_single_threaded", "task " + std::to_string(t) + " op " + std::to_string(i) + " " + plan.tasks[(size_t)t][i].toJson().str());
        }
    }
    const uint64_t after = sweepDigest(shared, mo);
    if (after != before) mismatch(RACE, "shared_graph_changed_by_readers", "");
    settle();
}

} // namespace gs
