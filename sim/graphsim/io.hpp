// IOSim operations: persist/reload with disk faults, every-cut enumeration, hand-made and malformed files, open failures.
#pragma once
#include "algs.hpp"
#include "../iosim/wrap.hpp"
#include <cerrno>
#include <cstring>
#include <sys/stat.h>
#include <unistd.h>

namespace gs {

template <class L>
inline int alphaIndexOf(const L &l) {
    for (int i = 0; i < ALPHA_N; ++i)
        if (Alpha<L>::get(i) == l) return i;
    return -1;
}

template <class A>
struct IoOps {
    typedef Runner<A> R;
    typedef typename A::G G;
    typedef typename A::Lab L;
    static const Kind kind = A::kind;
    typedef RefBin<L> RB;

    // expected result of loading a list of records
    struct Expected {
        Model m;
        std::vector<std::tuple<unsigned, unsigned, std::string>> rawLabels; // labels outside the alphabet, by bytes
    };
    static void expectRecord(Expected &ex, unsigned a, unsigned b, const L &l, const std::string &labBytes) {
        unsigned hi = std::max(a, b);
        if (hi + 1 > ex.m.n) ex.m.n = hi + 1;
        int idx = 0;
        if constexpr (kind == LABELED) idx = alphaIndexOf(l);
        Key k = ex.m.key(a, b);
        auto it = ex.m.e.find(k);
        if (it == ex.m.e.end()) {
            MEdge e;
            e.val = idx < 0 ? 0 : idx;
            e.known = idx >= 0;
            ex.m.e[k] = e;
            if (idx < 0) ex.rawLabels.emplace_back(k.first, k.second, labBytes);
        } else {
            it->second.copies += 1;
            it->second.known = false; // duplicate records: which label survives is not specified
        }
    }
    static L labelFromBytes(const std::string &b) {
        L l = L();
        if constexpr (Codec<L>::bin && !std::is_same<L, BaseGraph::NoLabel>::value) {
            if (b.size() == sizeof(L)) std::memcpy((void *)&l, b.data(), sizeof(L));
        }
        return l;
    }
    static Expected expectedFromBinary(const std::string &bytes, size_t maxRecords, bool directed) {
        Expected ex;
        ex.m.directed = directed;
        for (auto &rec : RB::decode(bytes, maxRecords)) expectRecord(ex, rec.a, rec.b, labelFromBytes(rec.lab), rec.lab);
        return ex;
    }

    // ---- library calls
    static void libWrite(const G &g, const std::string &p, bool binary) {
        if (binary) { if constexpr (Codec<L>::bin) libWriteBin(g, p); }
        else { if constexpr (Codec<L>::text) libWriteText(g, p); }
    }
    // A user codec that looks ahead after reading its label (as a variable-length label format would): on the last record
    // the stream comes back with eofbit set and failbit clear. Documented parameter, legal use; the result must not differ.
    static G libLoadLookahead(const std::string &p) {
        if constexpr (Codec<L>::bin && !std::is_same<L, BaseGraph::NoLabel>::value) {
            auto codec = [](std::ifstream &s, L &l) -> std::ifstream & {
                BaseGraph::io::readBinaryValue(s, l);
                if (s) (void)s.peek();
                return s;
            };
            if constexpr (A::directed) return BaseGraph::io::loadBinaryEdgeList<BaseGraph::LabeledDirectedGraph, L>(p, codec);
            else return BaseGraph::io::loadBinaryEdgeList<BaseGraph::LabeledUndirectedGraph, L>(p, codec);
        }
        return libLoad(p, true);
    }
    static G libLoad(const std::string &p, bool binary, bool lookahead = false) {
        if (binary && lookahead) return libLoadLookahead(p);
        if (binary) {
            if constexpr (Codec<L>::bin) {
                if constexpr (A::directed) return libLoadBin<BaseGraph::LabeledDirectedGraph, L>(p);
                else return libLoadBin<BaseGraph::LabeledUndirectedGraph, L>(p);
            }
        } else {
            if constexpr (Codec<L>::text) {
                if constexpr (A::directed) return libLoadText<BaseGraph::LabeledDirectedGraph, L>(p);
                else return libLoadText<BaseGraph::LabeledUndirectedGraph, L>(p);
            }
        }
        return G(0);
    }

    // quiet comparison of a loaded graph with an expectation (no mismatch is recorded)
    static bool matches(R &r, const G &got, const Expected &ex) {
        size_t pend = r.pending.size();
        sim::Digest kd = r.dg, kr = r.raw;
        r.sweep(got, ex.m, "match");
        r.dg = kd; r.raw = kr;
        bool ok = r.pending.size() == pend;
        r.pending.resize(pend);
        if (ok) ok = rawLabelsOk(got, ex);
        return ok;
    }
    static bool rawLabelsOk(const G &got, const Expected &ex) {
        if constexpr (kind == LABELED && Codec<L>::bin) {
            for (auto &t : ex.rawLabels) {
                const MEdge *e = ex.m.find(std::get<0>(t), std::get<1>(t));
                if (!e || e->copies != 1) continue;
                L l = got.getEdgeLabel(std::get<0>(t), std::get<1>(t));
                if (std::memcmp((const void *)&l, std::get<2>(t).data(), sizeof(L)) != 0) return false;
            }
        }
        return true;
    }
    // loud comparison: every mismatch is charged to `cat`
    static void compare(R &r, const G &got, const Expected &ex, Cat cat, const std::string &what) {
        std::string keep = r.curOp;
        r.curOp = what;
        r.catOverride = true; r.catOverrideTo = cat;
        r.sweep(got, ex.m, "loaded");
        r.catOverride = false;
        if (!rawLabelsOk(got, ex)) r.mismatch(cat, "label_bytes_differ", what);
        r.curOp = keep;
    }

    static Cat ioCat(R &r, bool binary) {
        if (r.plan.profile == "C15") return IO15;
        if (r.plan.profile == "C14") return IO14;
        if (r.plan.profile == "C13") return IO13;
        return binary ? IO14 : IO13;
    }

    // ------------------------------------------------------------------ persist / reload
    static void persist(R &r, const sim::Op &op) {
        if constexpr (kind == SIMPLE || kind == LABELED) {
            const bool binary = modn(op.x, 2) == 1;
            const bool can = binary ? Codec<L>::bin : Codec<L>::text;
            if (!can || r.m.hasDuplicates() || !r.m.allKnown()) { r.res.probes.inc("persist_skipped"); return; }
            const Cat cat = ioCat(r, binary);
            r.env.dirty = true;
            const std::string p = r.env.dir + (binary ? "/f.bin" : "/f.txt");
            const int fault = (int)modn(op.y, 8); // 0,1 none; 2 read-eio; 3 short reads; 4 full disk while writing; 5 throwing label formatter
            simdisk::Ctl &c = simdisk::ctl();
            simdisk::disarm();
            c.watchPath = p.c_str();
            if (r.m.n == 0) r.res.probes.inc("persist_size0");
            if (r.m.e.empty()) r.res.probes.inc("persist_no_edges");
            if (fault == 4 || fault == 5) {
                // The properties promise nothing about the file after a failed write or a throwing callback - but the writer must
                // stay memory safe (C17): nothing is compared, the memory checkers watch.
                bool threw = false;
                if (fault == 4 && simdisk::linked()) {
                    c.writeFailAt = (long)modn(op.a, 64);
                    try { libWrite(*r.g, p, binary); } catch (const std::exception &) { threw = true; }
                    ++r.faultsFired;
                    r.res.faults.inc("write_enospc");
                } else if (fault == 5 && !binary) {
                    if constexpr (kind == LABELED && Codec<L>::text) {
                        const unsigned failAfter = modn(op.a, 4);
                        unsigned calls = 0;
                        try {
                            BaseGraph::io::writeTextEdgeList<A::template GT, L>(*r.g, p, [&](const L &l) -> std::string {
                                if (calls++ >= failAfter) throw std::runtime_error("label formatter failed");
                                return Codec<L>::toStr(l);
                            });
                        } catch (const std::exception &) { threw = true; }
                        ++r.faultsFired;
                        r.res.faults.inc("throwing_label_formatter");
                    }
                }
                if (threw) r.res.probes.inc("writer_threw_under_fault");
                simdisk::disarm();
                return;
            }
            libWrite(*r.g, p, binary);
            simdisk::disarm();
            std::string bytes;
            readFileBytes(p, bytes);
            r.dg.u64(bytesDigest(bytes));
            // the file itself
            Expected fileEx;
            fileEx.m.directed = A::directed;
            if (binary) {
                if (bytes.size() != r.m.e.size() * RB::rec)
                    r.mismatch(cat, "binary_file_length", "length " + std::to_string(bytes.size()) + " for " + std::to_string(r.m.e.size()) + " edges of record size " + std::to_string(RB::rec));
                fileEx = expectedFromBinary(bytes, (size_t)-1, A::directed);
            } else {
                bool wf = true;
                auto lines = refParseText(bytes, wf);
                if (!wf) r.mismatch(cat, "text_file_not_in_documented_format", "");
                for (auto &ln : lines) {
                    unsigned a = 0, b = 0;
                    try { a = (unsigned)std::stoul(ln.t1); b = (unsigned)std::stoul(ln.t2); } catch (...) { r.mismatch(cat, "text_file_vertex_token", ln.t1 + " " + ln.t2); continue; }
                    L l = L();
                    if constexpr (Codec<L>::text) l = Codec<L>::fromStr(ln.rest);
                    expectRecord(fileEx, a, b, l, "");
                }
            }
            if (!(fileEx.m.e == r.m.e)) r.mismatch(cat, binary ? "binary_file_records" : "text_file_lines", "the file does not hold exactly the graph's edges and labels");
            if (!r.pending.empty()) return;
            // reload
            c.watchPath = p.c_str();
            if (fault == 2 && simdisk::linked()) { c.readMode = 1; c.readAt = bytes.empty() ? 0 : (long)modn(op.a, (unsigned)bytes.size() + 1); }
            if (fault == 3 && simdisk::linked()) { c.readMode = 2; c.gran = 1 + (long)modn(op.b, 13); c.eintrEvery = (op.a & 1) ? 2 + (int)modn(op.a >> 1, 5) : 0; c.noSeek = (op.b & 1) != 0; }
            const int mode = c.readMode;
            const long eioAt = c.readAt;
            const long eintr0 = c.eintrs;
            bool threw = false;
            std::string what;
            std::unique_ptr<G> loaded;
            const bool lookahead = binary && (op.b & 2) != 0;
            if (lookahead) r.res.probes.inc("lookahead_codec_load");
            try { loaded.reset(new G(libLoad(p, binary, lookahead))); } catch (const std::exception &ex) { threw = true; what = ex.what(); }
            long faultsSeen = c.readFaults;
            (void)faultsSeen;
            simdisk::disarm();
            if (mode == 1) {
                ++r.faultsFired;
                r.res.faults.inc("read_eio");
                if (threw) { r.res.probes.inc("read_eio_loader_threw"); return; }
                if (binary) {
                    // throws, or exactly the first m complete records for some m <= floor(k/rec)
                    size_t maxm = (size_t)eioAt / RB::rec;
                    bool ok = false;
                    for (size_t mm = maxm + 1; mm-- > 0 && !ok;) ok = matches(r, *loaded, expectedFromBinary(bytes, mm, A::directed));
                    if (!ok) r.mismatch(IO15, "read_eio_not_a_prefix", "EIO after " + std::to_string(eioAt) + " bytes: the loaded graph is not a prefix of complete records");
                    else r.res.probes.inc("read_eio_prefix_ok");
                }
                return; // the run continues on the original object
            }
            if (threw) { r.mismatch(cat, "loader_threw_on_own_file", what); return; }
            if (mode == 2) { ++r.faultsFired; r.res.faults.inc("short_read"); if (c.eintrs > eintr0) r.res.faults.inc("read_eintr"); if (op.b & 1) r.res.faults.inc("unseekable_file"); }
            ++r.faultsFired;
            r.res.faults.inc(binary ? "persist_reload_binary" : "persist_reload_text");
            if (loaded->getSize() != fileEx.m.n)
                r.mismatch(cat, "loaded_size", "got " + std::to_string(loaded->getSize()) + " want 1+largest used index = " + std::to_string(fileEx.m.n));
            if (!r.pending.empty()) return;
            loaded->resize(r.m.n);
            Expected full;
            full.m = r.m;
            compare(r, *loaded, full, cat, binary ? "reload_binary" : "reload_text");
            if (!r.pending.empty()) return;
            bool eq = *loaded == *r.g;
            r.dg.byte(eq);
            if (!eq) r.mismatch(EQ, "roundtrip_equal_reported_different", "every observer agrees but operator== is false");
            r.g = std::move(loaded); // the history continues on the reloaded object
        } else {
            r.res.probes.inc("persist_skipped");
        }
    }

    static const char *cutRegion(size_t k) {
        size_t off = k % RB::rec;
        if (off == 0) return "cut_on_record_boundary";
        if (off < 4) return "cut_inside_src";
        if (off == 4) return "cut_between_src_and_dst";
        if (off < 8) return "cut_inside_dst";
        if (off == 8) return "cut_between_dst_and_label";
        return "cut_inside_label";
    }

    // ------------------------------------------------------------------ every crash point of the writer (C15)
    static void cutAll(R &r, const sim::Op &op) {
        if constexpr (kind == SIMPLE || kind == LABELED) {
            const bool binary = modn(op.x, 2) == 1;
            const bool can = binary ? Codec<L>::bin : Codec<L>::text;
            if (!can || ((r.m.hasDuplicates() || !r.m.allKnown()) && op.s.empty())) { r.res.probes.inc("cutall_skipped"); return; }
            r.env.dirty = true;
            const std::string p = r.env.dir + (binary ? "/c.bin" : "/c.txt"), p2 = r.env.dir + (binary ? "/k.bin" : "/k.txt");
            std::string bytes;
            if (binary && !op.s.empty()) {
                bytes = op.s; // a hand-made valid file (records in any order, special index bytes) instead of the current graph
                r.res.probes.inc("cutall_handmade_file");
            } else {
                libWrite(*r.g, p, binary);
                readFileBytes(p, bytes);
            }
            r.dg.u64(bytesDigest(bytes));
            // every cut offset of the file; only for files of several KiB (graphs of the rare large runs) the middle is sampled
            std::vector<size_t> cuts;
            // (also when the records name hundreds of vertices: each load is then followed by a sweep of a large graph)
            const bool wide = binary && expectedFromBinary(bytes, (size_t)-1, A::directed).m.n > 96;
            const bool sampled = bytes.size() > 768 || (wide && bytes.size() > 6 * RB::rec);
            if (!sampled) { for (size_t k = 0; k <= bytes.size(); ++k) cuts.push_back(k); }
            else {
                const size_t edge = 3 * (binary ? RB::rec : 16);
                for (size_t k = 0; k <= edge; ++k) cuts.push_back(k);
                sim::Rng cr((uint64_t)op.a * 7919 + bytes.size());
                for (int t = 0; t < (wide ? 48 : 160); ++t) cuts.push_back(edge + 1 + (size_t)cr.below(bytes.size() - 2 * edge - 1));
                for (size_t k = bytes.size() - edge; k <= bytes.size(); ++k) cuts.push_back(k);
                r.res.probes.inc("cutall_big_file_sampled");
            }
            if (binary && !sampled) r.ioFiles.push_back({bytesDigest(bytes), {(int64_t)bytes.size(), (int64_t)RB::rec}});
            for (size_t k : cuts) {
                writeFileBytes(p2, bytes.substr(0, k));
                bool threw = false;
                std::unique_ptr<G> loaded;
                try { loaded.reset(new G(libLoad(p2, binary, binary && (op.b & 1) != 0))); }
                catch (const std::exception &) { threw = true; }
                catch (...) { r.mismatch(IO15, "non_std_exception", "cut at " + std::to_string(k)); break; }
                ++r.faultsFired;
                r.res.faults.inc(binary ? "cut_binary" : "cut_text");
                if (binary) r.res.probes.inc(cutRegion(k));
                if (threw) { r.res.probes.inc("cut_loader_threw"); continue; }
                r.dg.u64(loaded->getEdgeNumber());
                if (!binary) continue; // text: safety only
                if (!matches(r, *loaded, expectedFromBinary(bytes, k / RB::rec, A::directed))) {
                    r.mismatch(IO15, cutRegion(k), "file of " + std::to_string(bytes.size()) + " bytes cut at " + std::to_string(k) + ": the loaded graph is not exactly the " + std::to_string(k / RB::rec) + " complete records before the cut (size " + std::to_string(loaded->getSize()) + ", edges " + std::to_string(loaded->getEdgeNumber()) + ")");
                    break;
                }
            }
        } else r.res.probes.inc("cutall_skipped");
    }

    // ------------------------------------------------------------------ files not produced by the writer
    static void loadRaw(R &r, const sim::Op &op) {
        if constexpr (kind == SIMPLE || kind == LABELED) {
            const int loader = (int)modn(op.x, 3); // 0 text edge list, 1 text with vertex names, 2 binary
            const bool strict = modn(op.y, 2) == 0;
            const bool binary = loader == 2;
            if (binary ? !Codec<L>::bin : !Codec<L>::text) { r.res.probes.inc("loadraw_skipped"); return; }
            r.env.dirty = true;
            const std::string p = r.env.dir + (binary ? "/r.bin" : "/r.txt");
            writeFileBytes(p, op.s);
            r.dg.u64(bytesDigest(op.s));
            const Cat cat = strict ? (binary ? IO14 : IO13) : IO15;
            simdisk::Ctl &c = simdisk::ctl();
            simdisk::disarm();
            if (strict && modn(op.b, 3) == 0 && simdisk::linked()) { c.watchPath = p.c_str(); c.readMode = 2; c.gran = 1 + (long)modn(op.a, 9); c.noSeek = (op.a & 16) != 0; }
            bool threw = false;
            std::string what;
            std::unique_ptr<G> loaded;
            std::vector<std::string> names;
            try {
                if (loader == 2) loaded.reset(new G(libLoad(p, true)));
                else if (loader == 0) loaded.reset(new G(libLoad(p, false)));
                else {
                    if constexpr (Codec<L>::text) {
                        auto fromStr = [](const std::string &s) { return Codec<L>::fromStr(s); };
                        if constexpr (A::directed) {
                            auto pr = BaseGraph::io::loadTextVertexLabeledEdgeList<BaseGraph::LabeledDirectedGraph, L>(p, fromStr);
                            loaded.reset(new G(std::move(pr.first))); names = std::move(pr.second);
                        } else {
                            auto pr = BaseGraph::io::loadTextVertexLabeledEdgeList<BaseGraph::LabeledUndirectedGraph, L>(p, fromStr);
                            loaded.reset(new G(std::move(pr.first))); names = std::move(pr.second);
                        }
                    }
                }
            } catch (const std::exception &ex) { threw = true; what = ex.what(); }
            catch (...) { simdisk::disarm(); r.mismatch(IO15, "non_std_exception", "loader threw something not derived from std::exception"); return; }
            if (c.shortReads > 0 && c.readMode == 2) { r.res.faults.inc("short_read"); }
            simdisk::disarm();
            ++r.faultsFired;
            r.res.faults.inc(strict ? (binary ? "handmade_binary" : (loader == 0 ? "handmade_text" : "handmade_vertex_names")) : (binary ? "arbitrary_binary" : "malformed_text"));
            if (!strict) {
                if (threw) { r.res.probes.inc("malformed_loader_threw"); return; }
                r.res.probes.inc("malformed_loader_returned");
                if (binary) { // arbitrary bytes: exactly the complete records, nothing invented
                    if (!matches(r, *loaded, expectedFromBinary(op.s, (size_t)-1, A::directed)))
                        r.mismatch(IO15, "arbitrary_binary_not_the_complete_records", "length " + std::to_string(op.s.size()));
                }
                return;
            }
            if (threw) { r.mismatch(cat, "loader_threw_on_wellformed_file", what); return; }
            Expected ex;
            ex.m.directed = A::directed;
            if (binary) ex = expectedFromBinary(op.s, (size_t)-1, A::directed);
            else {
                bool wf = true;
                auto lines = refParseText(op.s, wf);
                std::vector<std::string> order; // vertex names in order of first appearance
                auto idxOf = [&](const std::string &t) -> unsigned {
                    if (loader == 0) return (unsigned)std::stoul(t);
                    for (size_t i = 0; i < order.size(); ++i) if (order[i] == t) return (unsigned)i;
                    order.push_back(t);
                    return (unsigned)order.size() - 1;
                };
                for (auto &ln : lines) {
                    unsigned a = idxOf(ln.t1), b = idxOf(ln.t2);
                    L l = L();
                    if constexpr (Codec<L>::text) l = Codec<L>::fromStr(ln.rest);
                    expectRecord(ex, a, b, l, "");
                }
                if (loader == 1) {
                    bool ok = names.size() >= order.size(); // the table may be longer; names[index(x)] == x is what is promised
                    for (size_t i = 0; ok && i < order.size(); ++i) ok = names[i] == order[i];
                    if (!ok) r.mismatch(IO13, "vertex_name_table", "names[index(x)] != x or wrong table size");
                    r.res.probes.inc("vertex_names_checked", (int64_t)order.size());
                }
            }
            if (loaded->getSize() != ex.m.n) r.mismatch(cat, "loaded_size", "got " + std::to_string(loaded->getSize()) + " want " + std::to_string(ex.m.n));
            if (!r.pending.empty()) return;
            compare(r, *loaded, ex, cat, binary ? "handmade_binary" : (loader == 0 ? "handmade_text" : "handmade_vertex_names"));
        } else r.res.probes.inc("loadraw_skipped");
    }

    // ------------------------------------------------------------------ open failures (C13/C14 shared clause)
    static void openFail(R &r, const sim::Op &op) {
        if constexpr (kind == SIMPLE || kind == LABELED) {
            static const char *entryName[5] = {"writeTextEdgeList", "writeBinaryEdgeList", "loadTextEdgeList", "loadTextVertexLabeledEdgeList", "loadBinaryEdgeList"};
            static const char *failName[9] = {"ENOENT_parent_missing", "ENOTDIR", "EISDIR", "ENAMETOOLONG", "ELOOP", "EACCES_injected", "EMFILE_injected", "EIO_injected", "ENOSPC_injected"};
            int entry = (int)modn(op.x, 5);
            int fail = (int)modn(op.y, 9);
            const bool binary = entry == 1 || entry == 4;
            const bool writer = entry <= 1;
            if (binary ? !Codec<L>::bin : !Codec<L>::text) { r.res.probes.inc("openfail_skipped"); return; }
            if (fail >= 5 && !simdisk::linked()) fail -= 5; // injected errnos need the wrap layer
            if (fail == 2 && !writer) fail = 0; // a directory can be opened for reading: not an open failure
            std::string p;
            r.env.dirty = true;
            simdisk::Ctl &c = simdisk::ctl();
            simdisk::disarm();
            switch (fail) {
            case 0: p = r.env.dir + "/no_such_dir/x"; break;
            case 1: writeFileBytes(r.env.dir + "/plainfile", "x"); p = r.env.dir + "/plainfile/x"; break;
            case 2: p = r.env.dir; break;
            case 3: p = r.env.dir + "/" + std::string(300, 'n'); break;
            case 4: { std::string l = r.env.dir + "/loop"; if (symlink("loop", l.c_str()) != 0 && errno != EEXIST) { r.res.probes.inc("openfail_skipped"); return; } p = l; break; }
            default: {
                p = r.env.dir + "/inj";
                writeFileBytes(p, "");
                static const int errs[4] = {EACCES, EMFILE, EIO, ENOSPC};
                c.watchPath = p.c_str();
                c.openErrno = errs[fail - 5];
            }
            }
            bool threwRuntime = false, threwOther = false, returned = false;
            std::string what;
            try {
                switch (entry) {
                case 0: libWrite(*r.g, p, false); break;
                case 1: libWrite(*r.g, p, true); break;
                case 2: (void)libLoad(p, false); break;
                case 3:
                    if constexpr (Codec<L>::text) {
                        if constexpr (A::directed) (void)BaseGraph::io::loadTextVertexLabeledEdgeList<BaseGraph::LabeledDirectedGraph, L>(p, [](const std::string &s) { return Codec<L>::fromStr(s); });
                        else (void)BaseGraph::io::loadTextVertexLabeledEdgeList<BaseGraph::LabeledUndirectedGraph, L>(p, [](const std::string &s) { return Codec<L>::fromStr(s); });
                    }
                    break;
                case 4: (void)libLoad(p, true); break;
                }
                returned = true;
            } catch (const std::runtime_error &ex) { threwRuntime = true; what = ex.what(); }
            catch (const std::exception &ex) { threwOther = true; what = ex.what(); }
            simdisk::disarm();
            ++r.faultsFired;
            r.res.faults.inc(std::string("open_fail_") + failName[fail]);
            r.res.probes.inc(std::string("openfail:") + entryName[entry] + "|" + failName[fail]);
            const Cat cat = r.plan.profile == "C13" ? IO13 : IO14;
            if (returned) r.mismatch(cat, std::string("open_failure_not_reported:") + entryName[entry], failName[fail]);
            else if (threwOther) r.mismatch(cat, std::string("open_failure_wrong_exception:") + entryName[entry], what);
            (void)threwRuntime;
        } else r.res.probes.inc("openfail_skipped");
    }
};

template <class A>
void Runner<A>::doPersist(const sim::Op &op) { IoOps<A>::persist(*this, op); }

// A graph large enough for its file to exceed every stream / block buffer (tens of KiB), written, parsed by the reference
// codec, reloaded and compared (sparse sweep). The run's own graph is untouched.
template <class A>
void bigIo(Runner<A> &r, const sim::Op &op) {
    typedef typename A::G G;
    if constexpr (A::kind == SIMPLE || A::kind == LABELED) {
        const bool binary = modn(op.x, 2) == 1;
        if (binary ? !Codec<typename A::Lab>::bin : !Codec<typename A::Lab>::text) { r.res.probes.inc("bigio_skipped"); return; }
        const unsigned n = 90 + modn(op.a, 70);
        const unsigned dens = 300 + modn(op.b, 600);
        std::unique_ptr<G> keepG = std::move(r.g);
        Model keepM = r.m;
        r.g.reset(new G(n));
        r.m = Model();
        r.m.directed = A::directed;
        r.m.n = n;
        uint64_t h = (uint64_t)op.y * 0x9e3779b97f4a7c15ULL + 1;
        for (unsigned i = 0; i < n; ++i)
            for (unsigned j = A::directed ? 0 : i; j < n; ++j) {
                h ^= h << 13; h ^= h >> 7; h ^= h << 17;
                if (h % 1000 >= dens) continue;
                const double val = A::kind == LABELED ? (double)((h >> 20) % ALPHA_N) : 0;
                if constexpr (A::kind == LABELED) r.g->addEdge(i, j, Runner<A>::labelOf(val)); else r.g->addEdge(i, j);
                r.m.add(i, j, val);
            }
        r.res.probes.inc("bigio_graphs");
        sim::Op p2;
        p2.k = "persist"; p2.x = binary ? 1 : 0;
        try { IoOps<A>::persist(r, p2); } catch (...) { r.g = std::move(keepG); r.m = keepM; throw; }
        r.g = std::move(keepG);
        r.m = keepM;
    } else r.res.probes.inc("bigio_skipped");
}

template <class A>
void Runner<A>::doIo(const sim::Op &op) {
    if (op.k == "cutall") IoOps<A>::cutAll(*this, op);
    else if (op.k == "loadraw") IoOps<A>::loadRaw(*this, op);
    else if (op.k == "openfail") IoOps<A>::openFail(*this, op);
    else if (op.k == "bigio") bigIo(*this, op);
    else if (op.k == "earlyio") {
        // a graph written and read back during static initialisation of the program (before main): same fixed bytes
        static const unsigned char want[12] = {1, 0, 0, 0, 2, 0, 0, 0, 0x2c, 0x01, 0, 0};
        const std::string &b = simdisk::earlyBytes();
        if (!simdisk::earlyCompleted()) { res.probes.inc("earlyio_not_possible_in_this_environment"); return; }
        ++faultsFired;
        res.faults.inc("io_during_static_initialisation");
        if (b.size() != 12 || std::memcmp(b.data(), want, 12) != 0) mismatch(IO14, "bytes_written_during_static_initialisation", "got " + sim::toHex(b));
        else if (!simdisk::earlyRoundTrip()) mismatch(IO14, "roundtrip_during_static_initialisation", "");
    }
}

} // namespace gs
