// Label alphabets and class adapters for the eight public graph classes.
#pragma once
#include <cstdint>
#include <cstdio>
#include <cmath>
#include <cstdlib>
#include <limits>
#include <string>
#include <type_traits>

#include "BaseGraph/directed_graph.hpp"
#include "BaseGraph/directed_multigraph.hpp"
#include "BaseGraph/directed_weighted_graph.hpp"
#include "BaseGraph/undirected_graph.hpp"
#include "BaseGraph/undirected_multigraph.hpp"
#include "BaseGraph/undirected_weighted_graph.hpp"

namespace gs {

enum Kind { SIMPLE, LABELED, MULTI, WEIGHTED };

// user-defined struct label (C01/C03 "user struct")
struct SLabel {
    std::string s;
    double d = 0;
    bool operator==(const SLabel &o) const { return s == o.s && d == o.d; }
};

// user-defined EMPTY class as label: still a labelled graph (getEdgeLabel on a missing edge throws)
struct EmptyTag {
    bool operator==(const EmptyTag &) const { return true; }
};

static const int ALPHA_N = 8; // index 0 is always the default-constructed label

template <class L, class = void>
struct Alpha;

template <>
struct Alpha<BaseGraph::NoLabel> {
    static BaseGraph::NoLabel get(int) { return BaseGraph::NoLabel(); }
    static const char *name() { return "none"; }
};

template <>
struct Alpha<EmptyTag> {
    static EmptyTag get(int) { return EmptyTag(); }
    static const char *name() { return "empty"; }
};

template <class T>
struct IntName;
#define GS_INTNAME(T, N) template <> struct IntName<T> { static const char *name() { return N; } };
GS_INTNAME(signed char, "i8")
GS_INTNAME(unsigned char, "u8")
GS_INTNAME(char, "char")
GS_INTNAME(short, "i16")
GS_INTNAME(unsigned short, "u16")
GS_INTNAME(int, "int")
GS_INTNAME(unsigned, "unsigned")
GS_INTNAME(long long, "i64")
GS_INTNAME(unsigned long long, "u64")
#undef GS_INTNAME

template <class L>
struct Alpha<L, typename std::enable_if<std::is_integral<L>::value>::type> {
    static L get(int i) {
        switch (((i % ALPHA_N) + ALPHA_N) % ALPHA_N) {
        case 0: return L();
        case 1: return (L)7;
        case 2: return std::is_signed<L>::value ? (L)-3 : (L)3;
        case 3: return (L)11;
        case 4: return (L)42;
        case 5: return std::is_signed<L>::value ? (L)-1 : (L)1;
        case 6: return (L)100;
        default: return std::is_signed<L>::value ? std::numeric_limits<L>::min() : std::numeric_limits<L>::max();
        }
    }
    static const char *name() { return IntName<L>::name(); }
};

template <>
struct Alpha<double> {
    static double get(int i) {
        static const double v[ALPHA_N] = {0.0, 1.5, -2.25, 1e300, 0.1, -7.0, 3.141592653589793, 5e-324};
        return v[((i % ALPHA_N) + ALPHA_N) % ALPHA_N];
    }
    static const char *name() { return "double"; }
};
template <>
struct Alpha<float> {
    static float get(int i) {
        static const float v[ALPHA_N] = {0.0f, 1.5f, -2.25f, 1e30f, 0.1f, -7.0f, 3.14159f, 1e-45f};
        return v[((i % ALPHA_N) + ALPHA_N) % ALPHA_N];
    }
    static const char *name() { return "float"; }
};
template <>
struct Alpha<std::string> {
    static std::string get(int i) {
        static const char *v[ALPHA_N] = {"", "a", "\xa0" "b\xc3\x89", "hello world", "x\ty  z", "0 1 2", "#tag",
                                         "a-long-label-that-does-not-fit-in-the-small-string-buffer-0123456789"};
        return v[((i % ALPHA_N) + ALPHA_N) % ALPHA_N];
    }
    static const char *name() { return "string"; }
};
template <>
struct Alpha<SLabel> {
    static SLabel get(int i) {
        static const char *s[ALPHA_N] = {"", "a", "b", "a", "a-long-string-part-that-does-not-fit-in-the-small-buffer", "x y", "", "z"};
        static const double d[ALPHA_N] = {0, 1.5, -2, 2.5, 0, 1e300, 1, 0.1};
        int k = ((i % ALPHA_N) + ALPHA_N) % ALPHA_N;
        SLabel l;
        l.s = s[k];
        l.d = d[k];
        return l;
    }
    static const char *name() { return "struct"; }
};

// multiplicity argument alphabet (C04): {0,1,2,3,7}, 1 and 2 over-weighted
// plus rare large values (sums over a run stay far below 2^32)
inline unsigned multArg(int64_t x, bool extreme = false) {
    static const unsigned v[16] = {0, 1, 2, 3, 7, 1, 2, 1, 0, 1, 2, 3, 7, 255, 65536, 16777216};
    // "extreme" runs: EdgeMultiplicity is a 32-bit unsigned, every value of it is a legal argument
    static const unsigned e[16] = {0, 1, 2, 2147483648u, 3000000000u, 4294967295u, 2147483647u, 65536, 0, 1, 4294967295u, 2147483648u, 3, 7, 4000000000u, 2147483649u};
    // NOT `(extreme ? e : v)[i]`: g++ 12 with -fsanitize=undefined miscompiles a subscripted conditional array
    // expression (it yields 0 for every index; clang and uninstrumented g++ are fine) - found by the C17 digest oracle
    const unsigned *table = extreme ? e : v;
    return table[((x % 16) + 16) % 16];
}
// weight alphabets (C05). exact: {-8..8} x 1/4 ; rounded: arbitrary finite doubles in +-1e6
inline double weightArg(int64_t x, bool exact, bool nonneg) {
    double w;
    if (exact) {
        // {-8..8} x 1/4 plus a few values a tiny dyadic step away from 1 and -2.5 ("nearly equal but not equal");
        // every partial sum of a run stays exactly representable (< 2^11 integer part, 2^-41 granularity)
        int idx = (int)(((x % 73) + 73) % 73);
        if (idx < 65) w = (double)(idx - 32) / 4.0;
        else if (idx < 69) w = 1.0 + (double)(idx - 64) * std::ldexp(1.0, -41);
        else w = -2.5 - (double)(idx - 68) * std::ldexp(1.0, -41);
    } else {
        uint64_t z = (uint64_t)x * 0x9e3779b97f4a7c15ULL;
        z ^= z >> 29; z *= 0xbf58476d1ce4e5b9ULL; z ^= z >> 32;
        double u = (double)(z >> 11) / 9007199254740992.0; // [0,1)
        // magnitudes spread over ~2^-30 .. 2^30 (not merely +-1e6): sums of such weights are NOT exactly representable,
        // so the running total genuinely depends on the order of the history
        int e = (int)((z >> 3) % 61) - 30;
        w = std::ldexp(u * 2.0 - 1.0, e);
        if ((x % 7) == 0) w = 0.0;
        if ((x % 11) == 3) { // nearly equal values: a base value and its neighbours a few ulps away
            static const double base[4] = {0.3, 1.0, -7.25, 1e6};
            w = base[(x / 11) % 4];
            for (int k = (int)((x / 44) % 4); k > 0; --k) w = std::nextafter(w, 1e300);
        }
    }
    if (nonneg && w < 0) w = -w;
    return w;
}

// ---- class adapters ----
template <class L>
struct AdLD {
    template <class... T> using GT = BaseGraph::LabeledDirectedGraph<T...>;
    typedef BaseGraph::LabeledDirectedGraph<L> G;
    typedef L Lab;
    static const bool directed = true;
    static const Kind kind = std::is_same<L, BaseGraph::NoLabel>::value ? SIMPLE : LABELED;
    static std::string name() { return std::string("LabeledDirectedGraph<") + Alpha<L>::name() + ">"; }
};
template <class L>
struct AdLU {
    template <class... T> using GT = BaseGraph::LabeledUndirectedGraph<T...>;
    typedef BaseGraph::LabeledUndirectedGraph<L> G;
    typedef L Lab;
    static const bool directed = false;
    static const Kind kind = std::is_same<L, BaseGraph::NoLabel>::value ? SIMPLE : LABELED;
    static std::string name() { return std::string("LabeledUndirectedGraph<") + Alpha<L>::name() + ">"; }
};
struct AdDM {
    typedef BaseGraph::DirectedMultigraph G;
    typedef unsigned Lab;
    static const bool directed = true;
    static const Kind kind = MULTI;
    static std::string name() { return "DirectedMultigraph"; }
};
struct AdUM {
    typedef BaseGraph::UndirectedMultigraph G;
    typedef unsigned Lab;
    static const bool directed = false;
    static const Kind kind = MULTI;
    static std::string name() { return "UndirectedMultigraph"; }
};
struct AdDW {
    typedef BaseGraph::DirectedWeightedGraph G;
    typedef double Lab;
    static const bool directed = true;
    static const Kind kind = WEIGHTED;
    static std::string name() { return "DirectedWeightedGraph"; }
};
struct AdUW {
    typedef BaseGraph::UndirectedWeightedGraph G;
    typedef double Lab;
    static const bool directed = false;
    static const Kind kind = WEIGHTED;
    static std::string name() { return "UndirectedWeightedGraph"; }
};

} // namespace gs
