// Seeded workload generation: swarm configuration + explicit operation list, drawn before anything executes.
#pragma once
#include "../core/plan.hpp"
#include "../core/rng.hpp"
#include "labels.hpp"
#include <string>
#include <utility>
#include <vector>

namespace gs {

// op flag bits (field y of mutator ops)
// F_NOSWEEP: no observer is called after this step (observer schedules are part of the history: a cache keyed on too
// little state is only stale if the observer was NOT called between two mutations)
// F_ALIAS: the vertex argument is passed as a reference to an element of the neighbour list the call modifies (a legal call
// that integer-drawing harnesses never make; only matters if an implementation takes its indices by reference)
enum { F_FORCE = 1, F_NOLABEL = 2, F_FLIP = 4, F_EXISTING = 8, F_NOSWEEP = 256, F_ALIAS = 512 };

struct GenCfg {
    Kind kind = SIMPLE;
    bool directed = true;
    bool force = false;
    int hub = -1;        // large runs: a vertex that attracts most operations (long neighbour lists)
    bool extreme = false; // multigraph runs with multiplicities near 2^31 / 2^32: no additive ops on existing pairs
    std::vector<std::pair<const char *, int>> w; // op kind -> weight
    int total = 0;
    void add(const char *k, int weight) {
        if (weight > 0) { w.emplace_back(k, weight); total += weight; }
    }
};

// mult[i] in {0,1,1,2,4}: swarm multiplier per op kind
inline GenCfg makeGenCfg(Kind kind, bool directed, bool force, sim::Rng &r, bool swarm, int setlabBoost = 1, bool extreme = false) {
    GenCfg c;
    c.extreme = extreme;
    c.kind = kind;
    c.directed = directed;
    c.force = force;
    static const int mults[5] = {0, 1, 1, 2, 4};
    auto m = [&](int base) { return swarm ? base * mults[r.below(5)] : base; };
    if (force) {
        if (kind == SIMPLE || kind == LABELED) {
            c.add("add", 40);
            c.add("rem", m(8));
            c.add("dedup", m(6) + 1);
            c.add("resize", m(3));
        } else {
            c.add(kind == MULTI ? "addmul" : "add", 40);
            if (kind == MULTI && !extreme) c.add("add", m(10)); // (a copy of multiplicity 1 among extreme copies makes the total unspecified)
            c.add("dedup", m(6) + 1);
            c.add("resize", m(3));
        }
        return c;
    }
    c.add("add", 30); // never switched off: every run makes progress
    if (directed && kind != WEIGHTED) c.add("addrec", m(6));
    if (kind == MULTI) {
        c.add("addmul", m(14));
        if (directed) c.add("addrecmul", m(4));
        c.add("remmul", m(8));
        c.add("setmul", m(10));
    }
    if (kind == LABELED) c.add("setlab", m(10) * setlabBoost);
    if (kind == WEIGHTED) c.add("setw", m(12));
    c.add("dedup", swarm ? (r.pm(300) ? 2 : 0) : 1); // removeDuplicateEdges without duplicates: must change nothing
    c.add("rem", m(12));
    c.add("remloops", m(3));
    c.add("remvert", m(4));
    c.add("clear", m(2));
    c.add("resize", m(4));
    return c;
}

inline sim::Op genMutator(sim::Rng &r, const GenCfg &c, const sim::Op &prev) {
    sim::Op o;
    int t = (int)r.below((uint64_t)c.total);
    for (auto &kw : c.w) {
        if (t < kw.second) { o.k = kw.first; break; }
        t -= kw.second;
    }
    // vertex selectors biased toward collisions
    unsigned sel = (unsigned)r.below(100);
    if (sel < 25) { o.a = prev.a; o.b = prev.b; }
    else if (sel < 35) { o.a = prev.b; o.b = prev.a; }
    else if (sel < 47) { o.a = o.b = (int64_t)r.below(64); }
    else if (sel < 55) { o.a = -1; o.b = (int64_t)r.below(64); } // last vertex
    else if (sel < 60) { o.a = (int64_t)r.below(64); o.b = prev.a; } // vertex just used/removed
    else { o.a = (int64_t)r.below(64); o.b = (int64_t)r.below(64); }
    if (c.hub >= 0) { // large runs: vertices up to 72, most operations touch the hub (in either argument position)
        const unsigned hs = (unsigned)r.below(100);
        if (sel >= 35) { o.a = (int64_t)r.below(96); o.b = (int64_t)r.below(96); }
        if (hs < 30) o.a = c.hub;
        else if (hs < 55) o.b = c.hub;
    }
    // label / multiplicity / weight argument: ~90% differ from the default value (index 0)
    o.x = r.pm(100) ? 0 : (int64_t)(1 + r.below(63));
    if (o.k == "resize") o.x = (int64_t)r.below(4);
    o.y = 0;
    if (!c.directed && r.pm(500)) o.y |= F_FLIP;
    if (r.pm(150)) o.y |= F_NOLABEL;
    if (o.k == "rem" || o.k == "remmul" || o.k == "setmul" || o.k == "setlab" || o.k == "setw") {
        if (r.pm(600)) o.y |= F_EXISTING;
    }
    if (o.k == "setlab") o.y |= F_EXISTING; // setEdgeLabel on a missing edge is a rejected call, generated as such
    if ((o.k == "rem" || o.k == "remmul" || o.k == "setmul" || o.k == "remvert") && r.pm(150)) o.y |= F_ALIAS;
    if (c.force && (o.k == "add" || o.k == "addmul")) {
        if (c.kind == SIMPLE || c.kind == LABELED) { if (r.pm(650)) o.y |= F_FORCE; }
        else o.y |= F_FORCE;
        // ~70% of forced copies repeat the label of the previous op so that "all copies carry the same label" is common
        if (r.pm(700)) o.x = prev.x;
        // extreme multiplicities: many copies of few pairs, and all copies of a pair carry the same value, so that the totals
        // stay specified while the removed multiplicities of one neighbour list can exceed 32 bits
        if (c.extreme) {
            if (r.pm(550)) { o.a = prev.a; o.b = prev.b; }
            o.x = ((o.a + o.b) * 7 + o.a * o.b) & 15;
        }
    }
    return o;
}

// ---- profiles ----
struct ProfileSpec {
    std::vector<std::string> classes;
    std::vector<std::string> labels; // for LD/LU
};

inline const std::vector<std::string> &baseLabels() {
    static const std::vector<std::string> v = {"none", "int", "unsigned", "double", "char", "string", "struct", "empty"};
    return v;
}
inline const std::vector<std::string> &binLabels() {
    static const std::vector<std::string> v = {"none", "i8", "u8", "char", "i16", "u16", "int", "unsigned", "i64", "u64", "float", "double"};
    return v;
}

} // namespace gs
