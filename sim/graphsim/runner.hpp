// GraphSim: executes a plan against a real BaseGraph object and the reference model in lock step,
// runs the full observer sweep after every step, and charges each mismatch to the property of the oracle that fired.
#pragma once
#include <algorithm>
#include <cmath>
#include <exception>
#include <functional>
#include <memory>
#include <sstream>
#include <stdexcept>
#include <string>
#include <utility>
#include <vector>

#include "../core/digest.hpp"
#include "../core/plan.hpp"
#include "../core/rng.hpp"
#include "../model/model.hpp"
#include "gen.hpp"
#include "labels.hpp"

namespace gs {

using BaseGraph::VertexIndex;
using model::Key;
using model::MEdge;
using model::Model;

enum Cat { STRUCT, LABEL, VALUE, EQ, REJECT, IO13, IO14, IO15, UB, RACE, STEPS };

// environment the simulator owns for one worker
struct Env {
    std::string dir;        // private directory on tmpfs (SimDisk name space)
    bool trace = false;     // print a step-by-step trace (replay)
    bool dirty = false;     // a run left files behind: the directory is emptied before the next run starts
    std::function<void()> yield; // C18: scheduler yield point (null outside race phases)
};

inline unsigned modn(int64_t v, unsigned n) {
    if (n == 0) return 0;
    int64_t r = v % (int64_t)n;
    if (r < 0) r += n;
    return (unsigned)r;
}

template <class A>
struct Runner {
    typedef typename A::G G;
    typedef typename A::Lab L;
    static const Kind kind = A::kind;
    static const bool directed = A::directed;

    const sim::Plan &plan;
    sim::RunResult &res;
    Env &env;

    std::unique_ptr<G> g;
    Model m;
    struct Frozen { std::unique_ptr<G> g; Model m; bool checkedOnce = false; };
    std::vector<Frozen> frozen;

    sim::Digest dg, raw;
    std::vector<sim::Violation> pending;
    bool stop = false;
    int step = 0;
    std::string curOp = "init";
    unsigned nmax = 8;
    bool forceRun = false, exactW = true, nonneg = false, extremeM = false, noModel = false;
    int hub = -1;
    long observerCalls = 0;
    int faultsFired = 0;
    std::vector<std::pair<uint64_t, std::pair<int64_t, int64_t>>> ioFiles; // (digest,(len,rec)) for C15 evidence

    Runner(const sim::Plan &p, sim::RunResult &r, Env &e) : plan(p), res(r), env(e) {
        nmax = (unsigned)p.c("nmax", 8);
        forceRun = p.c("force", 0) != 0;
        exactW = p.c("exact", 1) != 0;
        nonneg = p.c("nonneg", 0) != 0;
        extremeM = p.c("extreme", 0) != 0;
        noModel = p.c("nomodel", 0) != 0;
        hub = (int)p.c("hub", 0) - 1;
        m.directed = directed;
    }

    // ------------------------------------------------------------------ charging
    std::string propFor(Cat c) const {
        switch (c) {
        case STRUCT:
            if (forceRun) return "C16";
            if (kind == MULTI) return "C04";
            if (kind == WEIGHTED) return "C05";
            return directed ? "C01" : "C02";
        case LABEL: return forceRun ? "C16" : "C03";
        case VALUE: return forceRun ? "C16" : (kind == MULTI ? "C04" : "C05");
        case EQ: return "C06";
        case REJECT: return "C07";
        case IO13: return "C13";
        case IO14: return "C14";
        case IO15: return "C15";
        case UB: return "C17";
        case RACE: return "C18";
        case STEPS: return "C19";
        }
        return "C00";
    }
    bool catOverride = false; // IO comparisons: whatever oracle fires, the mismatch belongs to the I/O property
    Cat catOverrideTo = IO13;
    void mismatch(Cat c, const std::string &oracle, const std::string &msg) {
        if (catOverride) c = catOverrideTo;
        sim::Violation v;
        v.set = true;
        v.prop = propFor(c);
        v.cls = v.prop + "/" + oracle + "/" + curOp + "/" + A::name();
        v.step = step;
        v.msg = msg;
        if (env.trace) fprintf(stderr, "  MISMATCH %s : %s\n", v.cls.c_str(), msg.c_str());
        pending.push_back(v);
    }
    // choose what the run reports: a mismatch charged to the profile's property wins; the run stops either way
    // Mismatches that concern only hidden state of pairs that are NOT edges (a label/weight/multiplicity that outlived its
    // edge): every vertex, edge and label-on-an-edge observer still agrees with the model, so the model remains a valid
    // judge of operator== (C06) - such a history must not be cut short before the equality oracles saw it.
    static bool absentPairOracle(const sim::Violation &v) {
        return v.cls.find("_of_absent_pair") != std::string::npos || v.cls.find("hasEdge_label_absent") != std::string::npos;
    }
    bool onlyAbsentPairMismatches() const {
        for (auto &v : pending) if (!absentPairOracle(v)) return false;
        return !pending.empty();
    }
    bool hiddenStateSeen = false;
    void settle() {
        if (pending.empty()) return;
        if (noModel) { // forced duplicates mixed with every mutator: the semantics are unspecified, only memory safety is judged
            res.probes.inc("nomodel_mismatches_ignored", (int64_t)pending.size());
            pending.clear();
            return;
        }
        if (onlyAbsentPairMismatches()) {
            bool mine = false;
            for (auto &v : pending) if (v.prop == plan.profile) mine = true;
            if (!mine) {
                if (!hiddenStateSeen) res.others.push_back(pending.front());
                hiddenStateSeen = true;
                pending.clear();
                return; // the run continues: equality oracles still have a valid expectation
            }
        }
        const sim::Violation *pick = nullptr;
        for (auto &v : pending)
            if (v.prop == plan.profile) { pick = &v; break; }
        if (pick) {
            if (!res.v.set) res.v = *pick;
        } else {
            res.others.push_back(pending.front());
        }
        pending.clear();
        stop = true;
    }

    // ------------------------------------------------------------------ label helpers
    static L labelOf(double val) {
        if constexpr (kind == SIMPLE) return L();
        else if constexpr (kind == LABELED) return Alpha<L>::get((int)val);
        else if constexpr (kind == MULTI) return (unsigned)val;
        else return val;
    }
    static int alphaIdx(const L &l) {
        if constexpr (kind == LABELED) {
            for (int i = 0; i < ALPHA_N; ++i) if (Alpha<L>::get(i) == l) return i;
        }
        return -1;
    }
    // label index as the model stores it: the smallest index whose label compares equal (label types whose values all compare
    // equal - an empty class - have a single model value)
    static double canonLab(double idx) {
        if constexpr (kind == LABELED) return (double)alphaIdx(Alpha<L>::get((int)idx));
        else return idx;
    }
    double valArg(const sim::Op &op) const {
        if constexpr (kind == SIMPLE) return 0;
        else if constexpr (kind == LABELED) return canonLab((double)modn(op.x, ALPHA_N));
        else if constexpr (kind == MULTI) return (double)multArg(op.x, extremeM);
        else return weightArg(op.x, exactW, nonneg);
    }

    // ------------------------------------------------------------------ the observer sweep
    template <class T>
    void foldVec(sim::Digest &d, const std::vector<T> &v) {
        d.u64(v.size());
        for (auto &x : v) d.u64((uint64_t)x);
    }

#define GS_OBS(NAME, CAT, ...)                                                        \
    try { ++observerCalls; __VA_ARGS__ }                                              \
    catch (const std::exception &ex) { mismatch(CAT, std::string("throws:") + NAME, ex.what()); }

    // expected adjacency matrix entry
    size_t expAdj(const Model &mo, unsigned i, unsigned j, bool twice) const {
        const MEdge *e = mo.find(i, j);
        if (!e) return 0;
        size_t c = (size_t)e->copies;
        if (kind == MULTI) c *= (size_t)e->val;
        if (!directed && i == j && twice) c *= 2;
        return c;
    }

    void sweep(const G &gr, const Model &mo, const char *who) {
        const unsigned n = mo.n;
        const bool dups = mo.hasDuplicates();
        // graphs loaded from hand-made files can have hundreds of vertices: pair-wise oracles then cover every pair that is an
        // edge in either orientation plus a deterministic sample of the others (per-vertex and whole-graph oracles stay complete)
        const bool sparse = n > 24;
        const bool huge = n > 200; // quadratic whole-graph oracles (matrices, per-vertex in-degree scans) are dropped
        auto sel = [&](unsigned i, unsigned j) { return !sparse || mo.has(i, j) || mo.has(j, i) || ((i * 31u + j * 17u) % (n / 2 + 1)) == 0; };
        std::vector<Key> pairs;
        std::vector<char> vsel(n, huge ? 0 : 1);
        if (!sparse) {
            for (unsigned i = 0; i < n; ++i) for (unsigned j = 0; j < n; ++j) pairs.push_back(Key(i, j));
        } else {
            for (auto &kv : mo.e) {
                pairs.push_back(kv.first);
                if (kv.first.first != kv.first.second) pairs.push_back(Key(kv.first.second, kv.first.first));
                if (huge) { vsel[kv.first.first] = 1; vsel[kv.first.second] = 1; }
            }
            for (auto &kv : mo.ever) { // removed edges: both orientations
                if (kv.first.first >= n || kv.first.second >= n || mo.has(kv.first.first, kv.first.second)) continue;
                pairs.push_back(kv.first);
                if (kv.first.first != kv.first.second && !mo.has(kv.first.second, kv.first.first)) pairs.push_back(Key(kv.first.second, kv.first.first));
            }
            for (unsigned t = 0; t < 2 * std::min(n, 128u); ++t) {
                unsigned i = (unsigned)((t * 7919ull) % n), j = (unsigned)((t * 104729ull + 13) % n);
                if (!mo.has(i, j) && !mo.has(j, i)) pairs.push_back(Key(i, j));
                if (huge) vsel[i] = 1;
            }
            if (huge) { vsel[0] = 1; vsel[n - 1] = 1; }
        }
        dg.tag(who);
        bool sizeOk = true;
        GS_OBS("getSize", STRUCT, {
            size_t s = gr.getSize();
            dg.u64(s);
            if (s != n) { sizeOk = false; mismatch(STRUCT, "getSize", "got " + std::to_string(s) + " want " + std::to_string(n)); }
        })
        if (!sizeOk) return;
        GS_OBS("getEdgeNumber", STRUCT, {
            size_t en = gr.getEdgeNumber();
            dg.u64(en);
            size_t want = mo.edgeNumber();
            if (en != want) mismatch(STRUCT, "getEdgeNumber", "got " + std::to_string(en) + " want " + std::to_string(want));
        })
        // vertex range-for
        GS_OBS("vertex_iteration", STRUCT, {
            unsigned k = 0; bool ok = true;
            for (VertexIndex v : gr) { if (v != k) ok = false; ++k; }
            if (!ok || k != n) mismatch(STRUCT, "vertex_iteration", "visited " + std::to_string(k));
        })
        // hasEdge for every ordered pair
        for (const Key &pr : pairs) {
                const unsigned i = pr.first, j = pr.second;
                GS_OBS("hasEdge", STRUCT, {
                    bool h = gr.hasEdge(i, j);
                    dg.byte(h);
                    bool want = mo.has(i, j);
                    if (h != want)
                        mismatch(STRUCT, "hasEdge", "(" + std::to_string(i) + "," + std::to_string(j) + ") got " + std::to_string(h));
                })
            }
        // neighbour lists as multisets
        for (unsigned i = 0; i < n; ++i) {
            if (!vsel[i]) continue;
            GS_OBS("getOutNeighbours", STRUCT, {
                const BaseGraph::Successors &s = gr.getOutNeighbours(i);
                std::vector<unsigned> v(s.begin(), s.end());
                foldVec(raw, v);
                std::sort(v.begin(), v.end());
                foldVec(dg, v);
                if (v != mo.neighbours(i)) mismatch(STRUCT, "getOutNeighbours", "vertex " + std::to_string(i));
            })
            if constexpr (!directed && (kind == SIMPLE || kind == LABELED)) {
                GS_OBS("getNeighbours", STRUCT, {
                    const BaseGraph::Successors &s = gr.getNeighbours(i);
                    std::vector<unsigned> v(s.begin(), s.end());
                    std::sort(v.begin(), v.end());
                    if (v != mo.neighbours(i)) mismatch(STRUCT, "getNeighbours", "vertex " + std::to_string(i));
                })
            }
        }
        // edges(): every edge once per copy, one orientation per undirected pair
        GS_OBS("edges()", STRUCT, {
            std::vector<Key> got;
            for (auto e : gr.edges()) {
                // which orientation an undirected edge is reported in is not promised: compared as an unordered pair
                got.push_back(mo.key(e.first, e.second));
                raw.u64(e.first); raw.u64(e.second);
            }
            std::sort(got.begin(), got.end());
            std::vector<Key> want;
            for (auto &kv : mo.e) want.insert(want.end(), (size_t)kv.second.copies, kv.first);
            dg.u64(got.size());
            for (auto &k : got) { dg.u64(k.first); dg.u64(k.second); }
            if (got != want) mismatch(STRUCT, "edges()", "got " + std::to_string(got.size()) + " want " + std::to_string(want.size()) + " (or different pairs)");
        })
        // adjacency matrix
        if (!(dups && kind == MULTI) && !huge) {
            if constexpr (directed) {
                GS_OBS("getAdjacencyMatrix", STRUCT, {
                    auto mat = gr.getAdjacencyMatrix();
                    bool ok = mat.size() == n;
                    for (unsigned i = 0; i < n && ok; ++i) {
                        if (mat[i].size() != n) { ok = false; break; }
                        for (unsigned j = 0; j < n; ++j) { dg.u64(mat[i][j]); if (mat[i][j] != expAdj(mo, i, j, true)) ok = false; }
                    }
                    if (!ok) mismatch(STRUCT, "getAdjacencyMatrix", "");
                })
            } else {
                for (int twice = 0; twice < 2; ++twice) {
                    GS_OBS("getAdjacencyMatrix", STRUCT, {
                        auto mat = gr.getAdjacencyMatrix(twice != 0);
                        bool ok = mat.size() == n;
                        for (unsigned i = 0; i < n && ok; ++i) {
                            if (mat[i].size() != n) { ok = false; break; }
                            for (unsigned j = 0; j < n; ++j) { dg.u64(mat[i][j]); if (mat[i][j] != expAdj(mo, i, j, twice != 0)) ok = false; }
                        }
                        if (!ok) mismatch(STRUCT, twice ? "getAdjacencyMatrix(true)" : "getAdjacencyMatrix(false)", "");
                    })
                }
            }
        }
        // degrees (not stated for graphs holding forced duplicates: skipped there)
        if (!dups) {
            if constexpr (directed) {
                std::vector<size_t> outW(n, 0), inW(n, 0);
                for (auto &kv : mo.e) {
                    size_t c = kind == MULTI ? (size_t)kv.second.val : 1;
                    outW[kv.first.first] += c;
                    inW[kv.first.second] += c;
                }
                for (unsigned i = 0; i < n; ++i) {
                    if (!vsel[i]) continue;
                    GS_OBS("getOutDegree", STRUCT, { size_t d = gr.getOutDegree(i); dg.u64(d); if (d != outW[i]) mismatch(STRUCT, "getOutDegree", "vertex " + std::to_string(i)); })
                    GS_OBS("getInDegree", STRUCT, { size_t d = gr.getInDegree(i); dg.u64(d); if (d != inW[i]) mismatch(STRUCT, "getInDegree", "vertex " + std::to_string(i)); })
                }
                GS_OBS("getOutDegrees", STRUCT, { if (gr.getOutDegrees() != outW) mismatch(STRUCT, "getOutDegrees", ""); })
                GS_OBS("getInDegrees", STRUCT, { if (gr.getInDegrees() != inW) mismatch(STRUCT, "getInDegrees", ""); })
            } else {
                for (int twice = 0; twice < 2; ++twice) {
                    std::vector<size_t> want(n, 0);
                    for (auto &kv : mo.e) {
                        size_t c = kind == MULTI ? (size_t)kv.second.val : 1;
                        if (kv.first.first == kv.first.second) want[kv.first.first] += twice ? 2 * c : c;
                        else { want[kv.first.first] += c; want[kv.first.second] += c; }
                    }
                    for (unsigned i = 0; i < n; ++i) {
                        if (!vsel[i]) continue;
                        GS_OBS("getDegree", STRUCT, {
                            size_t d = gr.getDegree(i, twice != 0);
                            dg.u64(d);
                            if (d != want[i]) mismatch(STRUCT, twice ? "getDegree(true)" : "getDegree(false)", "vertex " + std::to_string(i) + " got " + std::to_string(d) + " want " + std::to_string(want[i]));
                        })
                    }
                    GS_OBS("getDegrees", STRUCT, { if (gr.getDegrees(twice != 0) != want) mismatch(STRUCT, "getDegrees", ""); })
                    if (twice) GS_OBS("getDegrees", STRUCT, { if (gr.getDegrees() != want) mismatch(STRUCT, "getDegrees(default)", ""); })
                    if (twice) {
                        // default argument counts self-loops twice
                        for (unsigned i = 0; i < n; ++i) {
                            if (!vsel[i]) continue;
                            GS_OBS("getDegree", STRUCT, { if (gr.getDegree(i) != want[i]) mismatch(STRUCT, "getDegree(default)", "vertex " + std::to_string(i)); })
                        }
                    }
                }
            }
        }
        // labels / multiplicities / weights
        if constexpr (kind == LABELED) {
            for (const Key &pr : pairs) {
                const unsigned i = pr.first, j = pr.second;
                    const MEdge *e = mo.find(i, j);
                    if (e) {
                        if (!e->known || e->copies > 1) continue; // C16 says nothing about the label of a pair while it is duplicated
                        GS_OBS("getEdgeLabel", LABEL, {
                            L want = Alpha<L>::get((int)e->val);
                            L got = gr.getEdgeLabel(i, j);
                            dg.u64((uint64_t)e->val);
                            if (!(got == want)) mismatch(LABEL, "label_of_present_pair", "(" + std::to_string(i) + "," + std::to_string(j) + ")");
                            if (!(gr.getEdgeLabel(i, j, false) == want)) mismatch(LABEL, "label_of_present_pair_nothrow", "");
                            if (!gr.hasEdge(i, j, want)) mismatch(LABEL, "hasEdge_label_true", "(" + std::to_string(i) + "," + std::to_string(j) + ")");
                            L other = Alpha<L>::get((int)e->val + 1 + (int)((i + j) % (ALPHA_N - 1)));
                            if (!(other == want) && gr.hasEdge(i, j, other)) mismatch(LABEL, "hasEdge_label_false", "");
                        })
                    } else if (mo.orphan.count(mo.key(i, j))) {
                        // documented orphan label (setEdgeLabel with force=true on a missing edge): outside C03; the value
                        // observed is only folded so that "unchanged after a rejected call" still sees it
                        GS_OBS("getEdgeLabel", LABEL, { dg.i64(alphaIdx(gr.getEdgeLabel(i, j, false))); })
                    } else {
                        GS_OBS("getEdgeLabel", LABEL, {
                            bool threw = false;
                            try { (void)gr.getEdgeLabel(i, j); } catch (const std::invalid_argument &) { threw = true; }
                            if (!threw) mismatch(LABEL, "label_of_absent_pair", "getEdgeLabel(" + std::to_string(i) + "," + std::to_string(j) + ") did not throw std::invalid_argument");
                            if (!(gr.getEdgeLabel(i, j, false) == L())) mismatch(LABEL, "label_of_absent_pair_nothrow", "getEdgeLabel(" + std::to_string(i) + "," + std::to_string(j) + ",false) is not EdgeLabel()");
                            if (gr.hasEdge(i, j, Alpha<L>::get((int)((i * 3 + j) % ALPHA_N)))) mismatch(LABEL, "hasEdge_label_absent", "");
                        })
                    }
                }
        }
        if constexpr (kind == MULTI) {
            size_t total = 0;
            for (auto &kv : mo.e) total += (size_t)kv.second.copies * (size_t)kv.second.val;
            if (mo.allKnown() && !dups) { // totals are specified for duplicate-free graphs (C04) and after removeDuplicateEdges (C16)
                GS_OBS("getTotalEdgeNumber", VALUE, {
                    size_t t = gr.getTotalEdgeNumber();
                    dg.u64(t);
                    if (t != total) mismatch(VALUE, "getTotalEdgeNumber", "got " + std::to_string(t) + " want " + std::to_string(total));
                })
            }
            for (const Key &pr : pairs) {
                const unsigned i = pr.first, j = pr.second;
                    const MEdge *e = mo.find(i, j);
                    if (e && (!e->known || e->copies > 1)) continue;
                    GS_OBS("getEdgeMultiplicity", VALUE, {
                        unsigned mu = gr.getEdgeMultiplicity(i, j);
                        dg.u64(mu);
                        unsigned want = e ? (unsigned)e->val : 0;
                        if (mu != want) mismatch(VALUE, e ? "multiplicity_of_present_pair" : "multiplicity_of_absent_pair", "(" + std::to_string(i) + "," + std::to_string(j) + ") got " + std::to_string(mu) + " want " + std::to_string(want));
                    })
                }
        }
        if constexpr (kind == WEIGHTED) {
            long double total = 0, mag = 0;
            for (auto &kv : mo.e) { total += (long double)kv.second.copies * (long double)kv.second.val; mag += std::fabs((long double)kv.second.val); }
            if (mo.allKnown() && !dups) {
                GS_OBS("getTotalWeight", VALUE, {
                    long double t = gr.getTotalWeight();
                    if (exactW) {
                        dg.ldbl(t);
                        if (t != total) mismatch(VALUE, "getTotalWeight_exact", "got " + std::to_string((double)t) + " want " + std::to_string((double)total));
                    } else {
                        long double bound = 4.0L * 2.220446049250313e-16L * (long double)(mo.mutations + 2) * (mo.absAdded + 1.0L);
                        if (std::fabs(t - total) > bound) mismatch(VALUE, "getTotalWeight_rounded", "got " + std::to_string((double)t) + " want " + std::to_string((double)total));
                    }
                })
            }
            if (!huge) GS_OBS("getWeightMatrix", VALUE, {
                auto wm = gr.getWeightMatrix();
                bool ok = wm.size() == n;
                for (unsigned i = 0; i < n && ok; ++i) {
                    if (wm[i].size() != n) { ok = false; break; }
                    for (unsigned j = 0; j < n; ++j) {
                if (!sel(i, j)) continue;
                        const MEdge *e = mo.find(i, j);
                        if (e && (!e->known || e->copies > 1)) continue;
                        dg.dbl(wm[i][j]);
                        double want = e ? e->val : 0.0;
                        if (wm[i][j] != want) ok = false;
                    }
                }
                if (!ok) mismatch(VALUE, "getWeightMatrix", "");
            })
            for (const Key &pr : pairs) {
                const unsigned i = pr.first, j = pr.second;
                    const MEdge *e = mo.find(i, j);
                    if (e) {
                        if (!e->known || e->copies > 1) continue;
                        GS_OBS("getEdgeWeight", VALUE, {
                            double w = gr.getEdgeWeight(i, j);
                            if (w != e->val) mismatch(VALUE, "weight_of_present_pair", "(" + std::to_string(i) + "," + std::to_string(j) + ") got " + std::to_string(w) + " want " + std::to_string(e->val));
                            if (gr.getEdgeWeight(i, j, false) != e->val) mismatch(VALUE, "weight_of_present_pair_nothrow", "");
                        })
                    } else {
                        GS_OBS("getEdgeWeight", VALUE, {
                            bool threw = false;
                            try { (void)gr.getEdgeWeight(i, j); } catch (const std::invalid_argument &) { threw = true; }
                            if (!threw) mismatch(VALUE, "weight_of_absent_pair", "getEdgeWeight(" + std::to_string(i) + "," + std::to_string(j) + ") did not throw std::invalid_argument");
                            double w0 = gr.getEdgeWeight(i, j, false);
                            if (w0 != 0.0) mismatch(VALUE, "weight_of_absent_pair_nothrow", "getEdgeWeight(" + std::to_string(i) + "," + std::to_string(j) + ",false) = " + std::to_string(w0));
                        })
                    }
                }
        }
    }

    // sweep digest only (used for "observably identical before/after")
    uint64_t sweepDigest(const G &gr, const Model &mo) {
        sim::Digest keepD = dg, keepR = raw;
        dg = sim::Digest(); raw = sim::Digest();
        size_t pend = pending.size();
        sweep(gr, mo, "probe");
        uint64_t h = dg.h ^ (raw.h * 31);
        if (pending.size() != pend) h ^= 0xdeadbeefULL; // a mismatch also differs from a clean sweep
        dg = keepD; raw = keepR;
        return h;
    }

    // ------------------------------------------------------------------ mutators: library call + model step
    struct Resolved { unsigned va, vb, ca, cb; bool ok; };
    Resolved resolve(const Model &mo, const sim::Op &op) {
        Resolved r{0, 0, 0, 0, mo.n > 0};
        if (!r.ok) return r;
        r.va = modn(op.a, mo.n);
        r.vb = modn(op.b, mo.n);
        if ((op.y & F_EXISTING) && !mo.e.empty()) {
            size_t idx = (size_t)modn(op.a * 131 + op.b, (unsigned)mo.e.size());
            auto it = mo.e.begin();
            std::advance(it, (long)idx);
            r.va = it->first.first;
            r.vb = it->first.second;
        }
        r.ca = r.va; r.cb = r.vb;
        if (!directed && (op.y & F_FLIP)) std::swap(r.ca, r.cb);
        if (!directed && r.ca > r.cb) res.probes.inc("undirected_descending_call");
        return r;
    }

    // pointer to an element of `from`'s neighbour list equal to `target` (for F_ALIAS calls)
    static const VertexIndex *aliasOf(const G &gr, unsigned from, unsigned target) {
        for (const VertexIndex &x : gr.getOutNeighbours(from)) if (x == target) return &x;
        return nullptr;
    }
    void noteRemoval(const Model &mo, const char *how, size_t before) {
        if (mo.e.size() < before && kind != SIMPLE) res.probes.inc(std::string("labelled_edge_removed_by_") + how);
    }

    // applies op to (gr, mo). Exceptions from the library propagate to the caller.
    void applyMut(G &gr, Model &mo, const sim::Op &op) {
        const std::string &k = op.k;
        const bool force = (op.y & F_FORCE) != 0 && forceRun;
        if (k == "resize") {
            unsigned d = (unsigned)modn(op.x, 4);
            unsigned target = mo.n + d;
            if (target > nmax) target = std::max(nmax, mo.n);
            if (target == mo.n) res.probes.inc("resize_same_size");
            gr.resize(target);
            if (target != mo.n) mo.touch();
            mo.n = target;
            return;
        }
        if (k == "clear") { size_t b = mo.e.size(); gr.clearEdges(); mo.clear(); noteRemoval(mo, "clearEdges", b); return; }
        if (k == "remloops") { size_t b = mo.e.size(); gr.removeSelfLoops(); mo.removeLoops(); noteRemoval(mo, "removeSelfLoops", b); return; }
        if (k == "dedup") {
            if (mo.hasDuplicates()) res.probes.inc("dedup_with_duplicates");
            gr.removeDuplicateEdges();
            mo.dedup();
            return;
        }
        Resolved r = resolve(mo, op);
        if (!r.ok) { res.probes.inc("op_skipped_size0"); return; }
        const double val = valArg(op);
        if (mo.n == 1) res.probes.inc("mutator_on_size1");
        if (k == "remvert") {
            size_t b = mo.e.size();
            if (mo.has(r.va, r.va)) res.probes.inc("selfloop_on_removed_vertex");
            const VertexIndex *al = nullptr;
            if (op.y & F_ALIAS) for (unsigned i = 0; i < mo.n && !al; ++i) al = aliasOf(gr, i, r.va);
            if (al) { res.probes.inc("aliased_argument_call"); gr.removeVertexFromEdgeList(*al); }
            else gr.removeVertexFromEdgeList(r.va);
            mo.removeVertex(r.va);
            noteRemoval(mo, "removeVertexFromEdgeList", b);
            return;
        }
        if (k == "rem") {
            size_t b = mo.e.size();
            MEdge *e = mo.find(r.va, r.vb);
            if (!e) res.faults.inc("dup_remove_absent");
            const VertexIndex *al = (op.y & F_ALIAS) ? aliasOf(gr, r.ca, r.cb) : nullptr;
            if (al) { res.probes.inc("aliased_argument_call"); gr.removeEdge(r.ca, *al); }
            else gr.removeEdge(r.ca, r.cb);
            if (kind == MULTI) {
                if (e) { if (e->val > 1 && e->copies == 1) { e->val -= 1; mo.touch(); } else mo.remove(r.va, r.vb); }
            } else mo.remove(r.va, r.vb);
            noteRemoval(mo, "removeEdge", b);
            return;
        }
        if constexpr (kind == MULTI) {
            // multiplicities are 32-bit: an additive call that would leave that domain is outside the property
            auto full = [&](unsigned s, unsigned d, double add) { const MEdge *x = mo.find(s, d); return x && x->val + add > 4294967295.0; };
            if ((k == "add" && full(r.va, r.vb, 1)) || (k == "addrec" && (full(r.va, r.vb, r.va == r.vb ? 2 : 1) || full(r.vb, r.va, 1)))) {
                res.probes.inc("additive_op_skipped_would_overflow_32bit");
                return;
            }
        }
        if (k == "add") {
            MEdge *e = mo.find(r.va, r.vb);
            if (e && !force) { res.faults.inc("dup_add_present"); if (e->val != val) res.probes.inc("readd_with_different_label"); }
            if (!e && mo.mutations > 0 && mo.e.empty()) res.probes.inc("readd_after_bulk_removal");
            if constexpr (kind == SIMPLE) {
                if (op.y & F_NOLABEL) gr.addEdge(r.ca, r.cb, force); else gr.addEdge(r.ca, r.cb, L(), force);
                if (force) mo.addForced(r.va, r.vb, 0); else mo.add(r.va, r.vb, 0);
            } else if constexpr (kind == LABELED) {
                double v = val;
                if (op.y & F_NOLABEL) { v = 0; gr.addEdge(r.ca, r.cb, force); } else gr.addEdge(r.ca, r.cb, labelOf(val), force);
                if (force) mo.addForced(r.va, r.vb, v); else mo.add(r.va, r.vb, v);
            } else if constexpr (kind == MULTI) {
                gr.addEdge(r.ca, r.cb, force);
                if (force) mo.addForced(r.va, r.vb, 1);
                else if (e) { e->val += 1; mo.touch(); } else mo.add(r.va, r.vb, 1);
            } else {
                gr.addEdge(r.ca, r.cb, val, force);
                if (force) { mo.addForced(r.va, r.vb, val); mo.absAdded += std::fabs((long double)val); }
                else if (mo.add(r.va, r.vb, val)) mo.absAdded += std::fabs((long double)val);
            }
            return;
        }
        if constexpr (directed && kind != WEIGHTED) {
            if (k == "addrec") {
                if constexpr (kind == MULTI) {
                    gr.addReciprocalEdge(r.ca, r.cb, force);
                    for (int t = 0; t < 2; ++t) {
                        unsigned s = t ? r.vb : r.va, d = t ? r.va : r.vb;
                        MEdge *e = mo.find(s, d);
                        if (e) { e->val += 1; mo.touch(); } else mo.add(s, d, 1);
                    }
                } else if constexpr (kind == SIMPLE) {
                    if (op.y & F_NOLABEL) gr.addReciprocalEdge(r.ca, r.cb, force); else gr.addReciprocalEdge(r.ca, r.cb, L(), force);
                    mo.add(r.va, r.vb, 0); mo.add(r.vb, r.va, 0);
                } else {
                    double v = val;
                    if (op.y & F_NOLABEL) { v = 0; gr.addReciprocalEdge(r.ca, r.cb, force); } else gr.addReciprocalEdge(r.ca, r.cb, labelOf(val), force);
                    mo.add(r.va, r.vb, v); mo.add(r.vb, r.va, v);
                }
                return;
            }
        }
        if constexpr (kind == MULTI) {
            const unsigned kk = (unsigned)val;
            auto overflows = [&](unsigned s, unsigned d, double add) {
                const MEdge *e = mo.find(s, d);
                return (e ? e->val : 0.0) + add > 4294967295.0;
            };
            if ((k == "addmul" && overflows(r.va, r.vb, kk)) ||
                (k == "addrecmul" && (overflows(r.va, r.vb, r.va == r.vb ? 2.0 * kk : kk) || overflows(r.vb, r.va, kk)))) {
                res.probes.inc("additive_op_skipped_would_overflow_32bit");
                return;
            }
            auto addK = [&](unsigned s, unsigned d) {
                if (kk == 0) return;
                MEdge *e = mo.find(s, d);
                if (force) mo.addForced(s, d, kk);
                else if (e) { e->val += kk; mo.touch(); } else mo.add(s, d, kk);
            };
            if (k == "addmul") {
                if (kk == 0) res.probes.inc("addMultiedge_0");
                gr.addMultiedge(r.ca, r.cb, kk, force);
                addK(r.va, r.vb);
                return;
            }
            if constexpr (directed) {
                if (k == "addrecmul") {
                    gr.addReciprocalMultiedge(r.ca, r.cb, kk, force);
                    addK(r.va, r.vb); addK(r.vb, r.va);
                    return;
                }
            }
            if (k == "remmul") {
                size_t b = mo.e.size();
                MEdge *e = mo.find(r.va, r.vb);
                if (e && kk >= 1 && e->val > kk) res.probes.inc("removeMultiedge_partial");
                if (e && kk == (unsigned)e->val) res.probes.inc("removeMultiedge_exact");
                {
                    const VertexIndex *al = (op.y & F_ALIAS) ? aliasOf(gr, r.ca, r.cb) : nullptr;
                    if (al) { res.probes.inc("aliased_argument_call"); gr.removeMultiedge(r.ca, *al, kk); }
                    else gr.removeMultiedge(r.ca, r.cb, kk);
                }
                if (e && kk > 0) { if (e->val > kk) { e->val -= kk; mo.touch(); } else mo.remove(r.va, r.vb); }
                noteRemoval(mo, "removeMultiedge", b);
                return;
            }
            if (k == "setmul") {
                size_t b = mo.e.size();
                MEdge *e = mo.find(r.va, r.vb);
                if (e && kk == 0 && e->val >= 2) res.probes.inc("setMultiplicity0_on_mult_ge2");
                if (e && std::fabs((double)kk - e->val) >= 2147483648.0) res.probes.inc("setMultiplicity_jump_ge_2^31");
                {
                    const VertexIndex *al = (op.y & F_ALIAS) ? aliasOf(gr, r.ca, r.cb) : nullptr;
                    if (al) { res.probes.inc("aliased_argument_call"); gr.setEdgeMultiplicity(r.ca, *al, kk); }
                    else gr.setEdgeMultiplicity(r.ca, r.cb, kk);
                }
                if (kk == 0) mo.remove(r.va, r.vb);
                else if (e) { if (e->val != kk) mo.touch(); e->val = kk; } else mo.add(r.va, r.vb, kk);
                noteRemoval(mo, "setEdgeMultiplicity0", b);
                return;
            }
        }
        if constexpr (kind == LABELED) {
            if (k == "orphan") { // the one documented way to leave a label without an edge
                if (mo.has(r.va, r.vb)) { res.probes.inc("orphan_skipped_present"); return; }
                gr.setEdgeLabel(r.ca, r.cb, labelOf(val), true);
                mo.orphan[mo.key(r.va, r.vb)] = 1;
                res.probes.inc("orphan_label_created");
                return;
            }
            if (k == "setlab") {
                MEdge *e = mo.find(r.va, r.vb);
                if (!e) { res.probes.inc("setlab_skipped_absent"); return; }
                gr.setEdgeLabel(r.ca, r.cb, labelOf(val));
                if (e->val != val) mo.touch();
                e->val = val; e->known = true;
                res.probes.inc("setEdgeLabel_on_present");
                return;
            }
        }
        if constexpr (kind == WEIGHTED) {
            if (k == "setw") {
                MEdge *e = mo.find(r.va, r.vb);
                if (e && !directed && r.ca > r.cb) res.probes.inc("setEdgeWeight_existing_descending");
                gr.setEdgeWeight(r.ca, r.cb, val);
                mo.absAdded += std::fabs((long double)val);
                if (e) { if (e->val != val) mo.touch(); e->val = val; e->known = true; } else mo.add(r.va, r.vb, val);
                return;
            }
        }
        res.probes.inc("op_not_applicable_" + k);
    }

    static bool isMutator(const std::string &k) {
        static const char *ks[] = {"add", "addrec", "addmul", "addrecmul", "rem", "remmul", "setmul", "setlab", "setw", "orphan",
                                   "remloops", "remvert", "clear", "resize", "dedup"};
        for (auto s : ks) if (k == s) return true;
        return false;
    }

    // a seeded sub-history applied to another object (dirty assignment target, replica B)
    void junkHistory(G &gr, Model &mo, uint64_t seed, int len, unsigned cap) {
        sim::Rng r(seed);
        GenCfg c = makeGenCfg(kind, directed, false, r, true);
        unsigned keep = nmax;
        nmax = cap;
        sim::Op prev;
        try {
            for (int i = 0; i < len; ++i) {
                sim::Op o = genMutator(r, c, prev);
                applyMut(gr, mo, o);
                prev = o;
            }
        } catch (...) { nmax = keep; throw; }
        nmax = keep;
    }

    // ------------------------------------------------------------------ snapshot faults (copy / assign)
    void freezeCurrent(std::unique_ptr<G> next) {
        Frozen f;
        f.g = std::move(g);
        f.m = m;
        frozen.push_back(std::move(f));
        if (frozen.size() > 3) frozen.erase(frozen.begin());
        g = std::move(next);
    }
    void eqOracle(const G &a, const G &b, bool expectEqual, const char *what) {
        GS_OBS("operator==", EQ, {
            bool e1 = a == b, e2 = b == a, ne = a != b;
            dg.byte(e1); dg.byte(e2); dg.byte(ne);
            if (e1 != expectEqual) mismatch(EQ, std::string(what) + (expectEqual ? "_equal_reported_different" : "_different_reported_equal"), "");
            else if (e2 != e1) mismatch(EQ, std::string(what) + "_not_symmetric", "");
            if (ne == e1) mismatch(EQ, std::string(what) + "_neq_is_not_negation", "");
            if (!(a == a) || !(b == b)) mismatch(EQ, std::string(what) + "_not_reflexive", "");
        })
    }
    void doCopy(const sim::Op &op) {
        std::unique_ptr<G> h;
        if (op.a & 64) { // copy, then move construction from the temporary copy
            G tmp(*g);
            h.reset(new G(std::move(tmp)));
            res.probes.inc("move_constructed_from_copy");
        } else h.reset(new G(*g));
        ++faultsFired;
        res.faults.inc("snapshot_copy");
        // a "silent" snapshot: no observer touches the copy before the history continues on it
        if (op.y & F_NOSWEEP) res.probes.inc("silent_snapshot");
        else if (!m.hasDuplicates()) eqOracle(*h, *g, true, "copy");
        freezeCurrent(std::move(h));
    }
    void doAssign(const sim::Op &op) {
        if ((op.a & 48) == 48) { // self-assignment must change nothing
            G &alias = *g;
            *g = alias;
            res.probes.inc("self_assignment");
            ++faultsFired;
            res.faults.inc("snapshot_assign");
            return;
        }
        std::unique_ptr<G> h(new G(modn(op.b, nmax + 1)));
        Model hm; hm.directed = directed; hm.n = (unsigned)h->getSize();
        junkHistory(*h, hm, (uint64_t)op.x * 2654435761ULL + 17, 1 + (int)modn(op.a, 12), nmax);
        if (!hm.e.empty()) res.probes.inc("assign_over_dirty_object");
        if (hm.n > m.n) res.probes.inc("assign_from_smaller_graph");
        if (op.b & 64) { *h = G(*g); res.probes.inc("assigned_from_temporary"); } // assignment from an rvalue (what `g = load(...)` does)
        else *h = *g;
        ++faultsFired;
        res.faults.inc("snapshot_assign");
        if (op.y & F_NOSWEEP) res.probes.inc("silent_snapshot");
        else if (!m.hasDuplicates()) eqOracle(*h, *g, true, "assign");
        freezeCurrent(std::move(h));
    }
    void checkFrozen(bool atEnd) {
        for (auto &f : frozen) {
            if (!atEnd && f.checkedOnce) continue;
            f.checkedOnce = true;
            std::string keep = curOp;
            curOp = "snapshot_after_" + keep;
            sweep(*f.g, f.m, "frozen");
            curOp = keep;
        }
    }

    // ------------------------------------------------------------------ replica fault (C06)
    void doReplica(const sim::Op &op) {
        if (m.hasDuplicates() || !m.allKnown()) { res.probes.inc("replica_skipped_duplicates"); return; }
        sim::Rng r((uint64_t)op.x * 0x9e3779b97f4a7c15ULL + 99);
        int mode = (int)modn(op.y, 3);
        std::unique_ptr<G> B(new G(mode == 2 ? modn(op.b, nmax + 1) : (unsigned)r.below(m.n + 1)));
        Model mb; mb.directed = directed; mb.n = (unsigned)B->getSize();
        const unsigned cap = mode == 2 ? nmax : m.n;
        // one PRNG draw per full-expression: argument evaluation order differs between compilers
        const uint64_t junkSeed = r.next();
        const int junkLen = (int)r.below(16);
        junkHistory(*B, mb, junkSeed, junkLen, cap);
        if (mode != 2) {
            sim::Op o;
            if (mb.n < m.n) {
                // grow in one or several steps
                while (mb.n < m.n) { B->resize(mb.n + 1 + (unsigned)r.below(m.n - mb.n)); mb.n = (unsigned)B->getSize(); }
            }
            // occasionally a larger detour: clear everything and re-insert
            if (r.pm(150)) { B->clearEdges(); mb.clear(); res.probes.inc("replica_clear_detour"); }
            // repair list
            struct Fix { int kindOf; Key k; };
            std::vector<Fix> fixes;
            for (auto &kv : mb.e) if (!m.e.count(kv.first)) fixes.push_back({0, kv.first});
            for (auto &kv : m.e) {
                auto it = mb.e.find(kv.first);
                if (it == mb.e.end()) fixes.push_back({1, kv.first});
                else if (it->second.val != kv.second.val) fixes.push_back({2, kv.first});
            }
            for (size_t i = fixes.size(); i > 1; --i) std::swap(fixes[i - 1], fixes[r.below(i)]);
            for (auto &f : fixes) {
                unsigned a = f.k.first, b = f.k.second;
                unsigned ca = a, cb = b;
                if (!directed && r.pm(500)) std::swap(ca, cb);
                if (f.kindOf == 0) { // extra edge: remove it entirely
                    if constexpr (kind == MULTI) {
                        unsigned cur = (unsigned)mb.find(a, b)->val;
                        int how = (int)r.below(3);
                        if (cur > 64 && how == 2) how = 0; // one removeEdge per parallel edge is only sensible for small multiplicities
                        if (how == 0) B->setEdgeMultiplicity(ca, cb, 0);
                        else if (how == 1) B->removeMultiedge(ca, cb, cur == 4294967295u ? cur : cur + (unsigned)r.below(2));
                        else for (unsigned t = 0; t < cur; ++t) B->removeEdge(ca, cb);
                    } else B->removeEdge(ca, cb);
                    mb.remove(a, b);
                } else if (f.kindOf == 1) { // missing edge
                    double v = m.find(a, b)->val;
                    if constexpr (kind == SIMPLE) B->addEdge(ca, cb);
                    else if constexpr (kind == LABELED) {
                        if (r.pm(300)) {
                            B->addEdge(ca, cb, labelOf(canonLab((double)r.below(ALPHA_N))));
                            if (directed) B->setEdgeLabel(ca, cb, labelOf(v)); else B->setEdgeLabel(cb, ca, labelOf(v));
                        } else B->addEdge(ca, cb, labelOf(v));
                    } else if constexpr (kind == MULTI) {
                        if (r.pm(300)) { B->addEdge(ca, cb); B->setEdgeMultiplicity(ca, cb, (unsigned)v); }
                        else B->addMultiedge(ca, cb, (unsigned)v);
                    } else {
                        if (r.pm(300)) B->setEdgeWeight(ca, cb, v); else B->addEdge(ca, cb, v);
                    }
                    mb.add(a, b, v);
                    if (kind == WEIGHTED) mb.absAdded += std::fabs((long double)v);
                } else { // different value
                    double v = m.find(a, b)->val;
                    if constexpr (kind == LABELED) B->setEdgeLabel(ca, cb, labelOf(v));
                    else if constexpr (kind == MULTI) {
                        unsigned cur = (unsigned)mb.find(a, b)->val;
                        if (cur < (unsigned)v && r.pm(500)) B->addMultiedge(ca, cb, (unsigned)v - cur);
                        else if (cur > (unsigned)v && r.pm(500)) B->removeMultiedge(ca, cb, cur - (unsigned)v);
                        else B->setEdgeMultiplicity(ca, cb, (unsigned)v);
                    } else if constexpr (kind == WEIGHTED) B->setEdgeWeight(ca, cb, v);
                    mb.find(a, b)->val = v;
                    mb.touch();
                    if (kind == WEIGHTED) mb.absAdded += std::fabs((long double)v);
                }
            }
            if (mode == 1) { // one seeded difference
                std::vector<Key> absent, present;
                for (unsigned i = 0; i < mb.n; ++i)
                    for (unsigned j = directed ? 0 : i; j < mb.n; ++j) (mb.has(i, j) ? present : absent).push_back(Key(i, j));
                int tries = 0;
                for (;; ++tries) {
                    int d = (int)r.below(4);
                    if (d == 0 && !absent.empty()) {
                        Key k = absent[r.below(absent.size())];
                        double v = kind == SIMPLE ? 0 : (kind == LABELED ? canonLab((double)r.below(ALPHA_N)) : (kind == MULTI ? 1.0 + (double)r.below(3) : 1.25));
                        if (kind == WEIGHTED) mb.absAdded += 1.25L;
                        if constexpr (kind == SIMPLE) B->addEdge(k.first, k.second);
                        else if constexpr (kind == LABELED) B->addEdge(k.first, k.second, labelOf(v));
                        else if constexpr (kind == MULTI) B->addMultiedge(k.first, k.second, (unsigned)v);
                        else B->addEdge(k.first, k.second, v);
                        mb.add(k.first, k.second, v);
                        res.probes.inc("replica_diff_extra_edge");
                        break;
                    }
                    if (d == 1 && !present.empty()) {
                        Key k = present[r.below(present.size())];
                        if constexpr (kind == MULTI) B->setEdgeMultiplicity(k.first, k.second, 0); else B->removeEdge(k.first, k.second);
                        mb.remove(k.first, k.second);
                        res.probes.inc("replica_diff_missing_edge");
                        break;
                    }
                    if (d == 2 && !present.empty() && kind != SIMPLE) {
                        Key k = present[r.below(present.size())];
                        MEdge *e = mb.find(k.first, k.second);
                        if constexpr (kind == LABELED) {
                            double v = canonLab((double)modn((int64_t)e->val + 1 + (int64_t)r.below(ALPHA_N - 1), ALPHA_N));
                            if (v == e->val) continue; // this label type has no second value: pick another kind of difference
                            B->setEdgeLabel(k.first, k.second, labelOf(v)); e->val = v;
                        }
                        else if constexpr (kind == MULTI) {
                            const double step = 1 + (double)r.below(3);
                            const double v = e->val > 1000 ? e->val - step : e->val + step; // stays inside the 32-bit domain
                            B->setEdgeMultiplicity(k.first, k.second, (unsigned)v); e->val = v;
                        }
                        else if constexpr (kind == WEIGHTED) { double v = e->val + 0.25 * (double)(1 + r.below(8)); B->setEdgeWeight(k.first, k.second, v); e->val = v; mb.touch(); mb.absAdded += std::fabs((long double)v); }
                        res.probes.inc("replica_diff_label");
                        break;
                    }
                    if (d == 3 || tries > 8) {
                        B->resize(mb.n + 1); mb.n += 1;
                        res.probes.inc("replica_diff_size");
                        break;
                    }
                }
            }
        }
        ++faultsFired;
        res.faults.inc(mode == 0 ? "replica_same" : mode == 1 ? "replica_one_difference" : "replica_independent");
        // B's own behaviour is judged by the structural/label oracles first
        std::string keep = curOp;
        curOp = "replica_build";
        sweep(*B, mb, "replicaB");
        curOp = keep;
        if (!pending.empty() && !onlyAbsentPairMismatches()) return;
        bool expect = m.sameGraph(mb);
        if (expect) res.probes.inc("replica_expected_equal"); else res.probes.inc("replica_expected_different");
        eqOracle(*g, *B, expect, mode == 0 ? "replica_same" : mode == 1 ? "replica_diff" : "replica_indep");
    }

    // A labelled-graph VALUE copied from asLabeledGraph() of a weighted graph / multigraph is an ordinary labelled graph:
    // removeEdge on it removes every copy of the pair, an unforced addEdge of a present pair changes nothing.
    void doAsLabeled(const sim::Op &op) {
        if constexpr (kind == MULTI || kind == WEIGHTED) {
            if (m.e.empty()) { res.probes.inc("aslabeled_skipped"); return; }
            auto copy = g->asLabeledGraph(); // a value, not a reference
            auto it = m.e.begin();
            std::advance(it, (long)modn(op.a * 131 + op.b, (unsigned)m.e.size()));
            unsigned a = it->first.first, b = it->first.second;
            if (!directed && (op.y & F_FLIP)) std::swap(a, b);
            const size_t before = copy.getEdgeNumber();
            copy.addEdge(a, b, typename A::Lab(), false);
            if (copy.getEdgeNumber() != before) mismatch(STRUCT, "aslabeled_copy_readd_changed_count", "");
            copy.removeEdge(a, b);
            size_t left = 0;
            for (auto x : copy.getOutNeighbours(a)) if (x == b) ++left;
            if (!directed) for (auto x : copy.getOutNeighbours(b)) if (x == a && a != b) ++left;
            if (copy.hasEdge(a, b) || left != 0 || copy.getEdgeNumber() != before - (size_t)it->second.copies)
                mismatch(STRUCT, "aslabeled_copy_removeEdge", "pair (" + std::to_string(a) + "," + std::to_string(b) + ") copies " + std::to_string(it->second.copies) + " left " + std::to_string(left));
            ++faultsFired;
            res.faults.inc("aslabeled_copy_then_remove");
        }
    }

    // defined in other headers
    void doReject(const sim::Op &op);   // reject.hpp
    void doPersist(const sim::Op &op);  // io.hpp
    void doIo(const sim::Op &op);       // io.hpp (openfail / loadraw / cutall)
    void doAlg(const sim::Op &op);      // algs.hpp
    uint64_t constOp(const G &gr, const Model &mo, const sim::Op &op, const std::string &tag); // algs.hpp
    void racePhase();                   // race.hpp

    Cat catOfOp(const std::string &k) const {
        if (k == "reject") return REJECT;
        if (k == "copy" || k == "assign" || k == "replica") return EQ;
        if (k == "persist" || k == "loadraw" || k == "openfail" || k == "bigio" || k == "earlyio") return plan.profile == "C14" ? IO14 : (plan.profile == "C15" ? IO15 : IO13);
        if (k == "cutall") return IO15;
        if (k == "alg") return UB;
        return STRUCT;
    }

    void trace(const sim::Op &op) {
        if (!env.trace) return;
        std::string es;
        if (m.e.size() <= 40)
            for (auto &kv : m.e) es += " " + std::to_string(kv.first.first) + (directed ? ">" : "-") + std::to_string(kv.first.second) + ":" + std::to_string(kv.second.val).substr(0, 8) + (kv.second.copies > 1 ? "x" + std::to_string(kv.second.copies) : "");
        fprintf(stderr, "step %d: %s  [n=%u edges=%zu]%s\n", step, op.toJson().str().c_str(), m.n, m.e.size(), es.c_str());
    }

    void exec(const sim::Op &op) {
        curOp = op.k;
        trace(op);
        dg.tag(op.k.c_str()); dg.i64(op.a); dg.i64(op.b); dg.i64(op.x); dg.i64(op.y);
        try {
            if (isMutator(op.k)) applyMut(*g, m, op);
            else if (op.k == "copy") doCopy(op);
            else if (op.k == "assign") doAssign(op);
            else if (op.k == "replica") doReplica(op);
            else if (op.k == "reject") doReject(op);
            else if (op.k == "persist") doPersist(op);
            else if (op.k == "openfail" || op.k == "loadraw" || op.k == "cutall" || op.k == "bigio" || op.k == "earlyio") doIo(op);
            else if (op.k == "alg") doAlg(op);
            else if (op.k == "aslabeled") doAsLabeled(op);
            else res.probes.inc("unknown_op");
        } catch (const std::exception &ex) {
            mismatch(catOfOp(op.k), "unexpected_exception", ex.what());
        }
        const bool skip = (isMutator(op.k) || op.k == "copy" || op.k == "assign") && (op.y & F_NOSWEEP);
        if (skip) { res.probes.inc("steps_without_observers"); sweepPending = true; }
        if (pending.empty() && !skip) {
            sweep(*g, m, "cur");
            checkFrozen(false);
            sweepPending = false;
        }
        settle();
    }
    bool sweepPending = false;

    void run() {
        g.reset(new G((size_t)plan.n0));
        m.n = (unsigned)plan.n0;
        if (plan.c("hub", 0) > 0) res.probes.inc("runs_large_with_hub");
        if (plan.c("long", 0)) res.probes.inc("runs_very_long_history");
        if (extremeM) res.probes.inc("runs_extreme_multiplicities");
        if (plan.c("huge", 0)) res.probes.inc("runs_huge_shared_graph");
        if (noModel) res.probes.inc("runs_forced_mix_without_model");
        if (plan.c("nmax", 6) == 12) res.probes.inc("runs_medium_size_bound");
        if (m.n == 0) res.probes.inc("size0_start");
        if (m.n == 1) res.probes.inc("size1_start");
        if (plan.c("coldstart", 0)) { res.probes.inc("runs_cold_start"); sweepPending = true; } // no observer before the readers start
        else {
            try {
                sweep(*g, m, "init");
            } catch (const std::exception &ex) { mismatch(STRUCT, "unexpected_exception", ex.what()); }
            settle();
        }
        for (size_t i = 0; i < plan.ops.size() && !stop; ++i) {
            step = (int)i + 1;
            exec(plan.ops[i]);
            if (m.n == 0) res.probes.inc("size0_observed");
            if (m.n == 1) res.probes.inc("size1_observed");
        }
        // reader tasks start on the object as the history left it - if the last steps ran without observers, whatever a const
        // method caches lazily is stale or empty at that moment; the final sweep comes after the readers
        if (!stop && !plan.tasks.empty()) racePhase();
        if (!stop) {
            curOp = "end";
            if (sweepPending) sweep(*g, m, "final");
            checkFrozen(true);
            settle();
        }
        res.digest = dg.h;
        res.rawDigest = raw.h ^ dg.h;
        res.steps = (int64_t)plan.ops.size() + observerCalls;
        res.stateHash = m.hash(A::name());
        res.nontrivial = m.mutations > 0 && (faultsFired > 0 || res.faults.m.size() > 0);
        if (!ioFiles.empty()) {
            sim::Json a = sim::Json::A();
            for (auto &f : ioFiles) {
                sim::Json t = sim::Json::A();
                t.a.push_back(sim::Json::S(sim::hex64(f.first)));
                t.a.push_back(sim::Json::I(f.second.first));
                t.a.push_back(sim::Json::I(f.second.second));
                a.a.push_back(t);
            }
            res.extra.set("io", a);
        }
    }
};

} // namespace gs
