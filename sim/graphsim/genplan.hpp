// Plan generation per property profile (swarm style: every run draws its own sizes, mix and fault kinds).
#pragma once
#include "gen.hpp"
#include "iocodec.hpp"

namespace gs {

inline Kind kindOf(const std::string &cls, const std::string &lab) {
    if (cls == "DM" || cls == "UM") return MULTI;
    if (cls == "DW" || cls == "UW") return WEIGHTED;
    return lab == "none" ? SIMPLE : LABELED;
}
inline bool directedOf(const std::string &cls) { return cls[0] == 'D' || cls == "LD"; }

template <class T>
const T &pick(sim::Rng &r, const std::vector<T> &v) { return v[r.below(v.size())]; }

// ---- generators of literal files (C13 workloads B/C, C14 hand-made, C15 malformed/arbitrary) ----
inline std::string blanks(sim::Rng &r, bool atLeastOne) {
    std::string s;
    int n = (int)r.below(4) + (atLeastOne ? 1 : 0);
    if (!atLeastOne && r.pm(600)) n = 0;
    for (int i = 0; i < n; ++i) s += r.pm(500) ? ' ' : '\t';
    return s;
}
inline std::string labelTextFor(const std::string &lab, sim::Rng &r) {
    int i = (int)r.below(ALPHA_N);
    if (lab == "none") return r.pm(700) ? "" : "ignored text";
    if (lab == "int") return Codec<int>::toStr(Alpha<int>::get(i));
    if (lab == "unsigned") return Codec<unsigned>::toStr(Alpha<unsigned>::get(i));
    if (lab == "char") return Codec<char>::toStr(Alpha<char>::get(i));
    if (lab == "double") return Codec<double>::toStr(Alpha<double>::get(i));
    if (lab == "string") return Alpha<std::string>::get(i);
    if (lab == "struct") return Codec<SLabel>::toStr(Alpha<SLabel>::get(i));
    if (lab == "i8") return Codec<signed char>::toStr(Alpha<signed char>::get(i));
    if (lab == "u8") return Codec<unsigned char>::toStr(Alpha<unsigned char>::get(i));
    if (lab == "i16") return Codec<short>::toStr(Alpha<short>::get(i));
    if (lab == "u16") return Codec<unsigned short>::toStr(Alpha<unsigned short>::get(i));
    if (lab == "i64") return Codec<long long>::toStr(Alpha<long long>::get(i));
    if (lab == "u64") return Codec<unsigned long long>::toStr(Alpha<unsigned long long>::get(i));
    if (lab == "float") return Codec<float>::toStr(Alpha<float>::get(i));
    return "0";
}
inline std::string genName(sim::Rng &r) {
    static const char *pool[] = {"a", "b", "alice", "bob", "x#1", "42", "0", "v-7", "\xc3\xa9t\xc3\xa9", "Z_z", "node:3", "#",
                                 "\xc3\x89ric", "Zo\xc3\xa0", "a\xc2\xa0" "b", "\x89\x8a\x8b\x8c\x8d\xa0"};
    if (r.pm(500)) {
        std::string s = pool[r.below(16)];
        if (s == "#") s = "n#"; // a name never starts a line with '#'
        return s;
    }
    std::string s;
    int len = 1 + (int)r.below(12);
    for (int i = 0; i < len; ++i) {
        unsigned char c = (unsigned char)(33 + r.below(94)); // printable, non-blank
        if (r.pm(200)) c = (unsigned char)(128 + r.below(128)); // any high byte is a legal name byte
        if (i == 0 && c == '#') c = 'h';
        s += (char)c;
    }
    return s;
}
// well-formed text file from the reference grammar
inline std::string genWellFormedText(sim::Rng &r, const std::string &lab, bool directed, bool names) {
    std::string out;
    std::vector<std::string> pool;
    int nv = 1 + (int)r.below(8);
    for (int i = 0; i < nv; ++i) {
        if (names) {
            std::string nm;
            bool fresh;
            do { nm = genName(r); fresh = true; for (auto &p : pool) if (p == nm) fresh = false; } while (!fresh);
            pool.push_back(nm);
        } else {
            static const int sp[6] = {127, 128, 255, 256, 300, 65};
            const bool special = r.pm(60);
            const int small = r.pm(800) ? i : (int)r.below(12);
            pool.push_back(std::to_string(special ? sp[r.below(6)] : small));
        }
    }
    std::vector<std::pair<std::string, std::string>> used;
    int lines = (int)r.below(14);
    bool finalNewline = r.pm(800);
    const int giantAt = r.pm(8) ? (int)r.below((uint64_t)lines + 1) : -1; // rarely: one comment line longer than any buffer
    for (int i = 0; i < lines; ++i) {
        if (i == giantAt) { const size_t len = 65530 + (size_t)r.below(5000); out += "# " + std::string(len, 'c') + " 1 2\n"; }
        if (r.pm(200)) { out += "#" + std::string(r.pm(500) ? " comment 1 2" : "") + "\n"; continue; }
        std::string a = pick(r, pool), b = pick(r, pool);
        bool dup = false;
        for (auto &u : used) {
            bool sameNum = names ? (u.first == a && u.second == b) : (std::stoi(u.first) == std::stoi(a) && std::stoi(u.second) == std::stoi(b));
            bool sameRev = names ? (u.first == b && u.second == a) : (std::stoi(u.first) == std::stoi(b) && std::stoi(u.second) == std::stoi(a));
            if (sameNum || (!directed && sameRev)) dup = true;
        }
        if (dup) continue;
        used.emplace_back(a, b);
        std::string lead = blanks(r, false);
        std::string l = labelTextFor(lab, r);
        out += lead + a + blanks(r, true) + b;
        if (!l.empty()) out += blanks(r, true) + l;
        else out += blanks(r, false);
        out += "\n";
    }
    if (!finalNewline && !out.empty() && out.back() == '\n') out.pop_back();
    return out;
}
inline std::string genMalformedText(sim::Rng &r, const std::string &lab, bool wild) {
    std::string out;
    int lines = 1 + (int)r.below(6);
    static const char *bad[] = {"", " ", "\t \t", "7", "x y", "1 y", "x 1", "+3 4", "-1 0", "0 -1", "99999999999 1", "1 99999999999999999999",
                                "3\r4", "1 2\r", "\0011 2", "1 \3772", "12abc 3", "0x10 1", "1.5 2", "1e2 3", "1  ", "  5", "#", " #1 2", "1 2 3 4 5",
                                "0000000000000000000000000000000000000000000000000000000000000000000000001 2", "1,2", "1;2", "--1 2", "+ 1", "- 1", "\v1\f2"};
    static const char *wildBad[] = {"-2 0", "2147483647 0", "0 2147483646", "-2147483648 1", "4294967295 1", "1 -7"};
    for (int i = 0; i < lines; ++i) {
        std::string line;
        unsigned c = (unsigned)r.below(100);
        if (c < 55) line = bad[r.below(sizeof(bad) / sizeof(bad[0]))];
        else if (c < 60 && wild) line = wildBad[r.below(sizeof(wildBad) / sizeof(wildBad[0]))];
        else if (c < 80) { // a grammatical line
            const uint64_t i1 = r.below(64), i2 = r.below(64);
            line = std::to_string(i1) + " " + std::to_string(i2);
            std::string l = labelTextFor(lab, r);
            if (!l.empty()) line += " " + l;
        } else if (c < 90) { // a grammatical line with one byte mutated
            const uint64_t i1 = r.below(64), i2 = r.below(64);
            line = std::to_string(i1) + " " + std::to_string(i2);
            const size_t at = (size_t)r.below(line.size());
            const unsigned char byte = (unsigned char)r.below(256);
            line[at] = (char)byte;
            if (line.find('\n') != std::string::npos) line = "1 2";
        } else { // embedded NUL / very long token
            if (r.pm(500)) line = std::string("1") + '\0' + " 2";
            else line = std::string(200 + r.below(400), '7') + " 1";
        }
        out += line;
        if (i + 1 < lines || r.pm(700)) out += "\n";
    }
    return out;
}
inline size_t labelSizeOf(const std::string &lab) {
    if (lab == "none") return 0;
    if (lab == "i8" || lab == "u8" || lab == "char") return 1;
    if (lab == "i16" || lab == "u16") return 2;
    if (lab == "int" || lab == "unsigned" || lab == "float") return 4;
    return 8;
}
inline void put32(std::string &s, unsigned v) { for (int i = 0; i < 4; ++i) s += (char)((v >> (8 * i)) & 0xff); }
// hand-made binary file: distinct pairs in shuffled order, labels = arbitrary bytes (C14) ; arbitrary: any length (C15)
inline std::string genBinaryFile(sim::Rng &r, const std::string &lab, bool directed, bool arbitrary, bool forceBig = false) {
    size_t ls = labelSizeOf(lab);
    std::string out;
    std::vector<std::pair<unsigned, unsigned>> used;
    int recs = (int)r.below(13);
    const bool big = !arbitrary && (r.pm(80) || forceBig);
    for (int i = 0; i < recs; ++i) {
        unsigned a = (unsigned)r.below(arbitrary ? 64 : 9), b = (unsigned)r.below(arbitrary ? 64 : 9);
        if (r.pm(150)) b = a;
        if (big) { // indices whose bytes are "special" (0x7f/0x80/0xff, carries into the second byte)
            static const unsigned sp[8] = {127, 128, 255, 256, 257, 300, 511, 254};
            if (r.pm(250)) a = sp[r.below(8)];
            if (r.pm(250)) b = sp[r.below(8)];
        }
        bool dup = false;
        for (auto &u : used) if ((u.first == a && u.second == b) || (!directed && u.first == b && u.second == a)) dup = true;
        if (dup && !(arbitrary && r.pm(300))) continue;
        used.emplace_back(a, b);
        put32(out, a); put32(out, b);
        for (size_t k = 0; k < ls; ++k) out += (char)(unsigned char)(r.pm(300) ? 0 : r.below(256));
    }
    if (arbitrary && r.pm(600)) { // ragged tail: a partial record of free bytes with small index fields
        size_t extra = 1 + r.below(8 + ls);
        std::string tail;
        put32(tail, (unsigned)r.below(64)); put32(tail, (unsigned)r.below(64));
        for (size_t k = 0; k < ls; ++k) tail += (char)(unsigned char)r.below(256);
        out += tail.substr(0, std::min(extra, tail.size() - 1));
    }
    return out;
}

// ---- profile -> plan ----
inline sim::Plan genPlan(uint64_t seed, const std::string &profile, bool thorough) {
    sim::Rng r(seed ^ 0x5bd1e995ULL);
    sim::Plan p;
    p.profile = profile;
    p.seed = seed;
    static const std::vector<std::string> all8 = {"LD", "LU", "DM", "UM", "DW", "UW"};
    static const std::vector<std::string> labeledOnly = {"int", "unsigned", "double", "char", "string", "struct"};
    static const std::vector<std::string> textLabels = {"none", "int", "unsigned", "double", "char", "string", "struct"};
    if (profile == "C19" || (profile == "C17" && r.pm(120))) {
        p.cls = "STEP"; p.lab = "none";
        int nops = 1 + (int)r.below(thorough ? 6 : 3);
        for (int i = 0; i < nops; ++i) {
            sim::Op o;
            o.k = "steps";
            o.x = (int64_t)r.below(15);
            o.a = (int64_t)r.below(1 << 16);
            o.b = (int64_t)r.below(1 << 16);
            int64_t algo = (int64_t)r.below(3);
            int64_t dir = (int64_t)r.below(2), loops = r.pm(250) ? 1 : 0, srcsel = r.pm(400) ? 1 : 0;
            const int64_t srcv = (int64_t)r.below(128), gseed = (int64_t)r.below(1 << 20);
            o.y = algo | (dir << 2) | (loops << 3) | (srcsel << 4) | (srcv << 5) | (gseed << 12);
            p.ops.push_back(o);
        }
        return p;
    }
    // class and label
    if (profile == "C01") p.cls = "LD";
    else if (profile == "C02") p.cls = "LU";
    else if (profile == "C03" || profile == "C13" || profile == "C14" || profile == "C15") p.cls = r.pm(500) ? "LD" : "LU";
    else if (profile == "C04") p.cls = r.pm(500) ? "DM" : "UM";
    else if (profile == "C05") p.cls = r.pm(500) ? "DW" : "UW";
    else p.cls = pick(r, all8);
    p.lab = "none";
    if (p.cls == "LD" || p.cls == "LU") {
        if (profile == "C03") p.lab = pick(r, labeledOnly);
        else if (profile == "C14") p.lab = pick(r, binLabels());
        else if (profile == "C15") p.lab = r.pm(650) ? pick(r, binLabels()) : pick(r, textLabels);
        else if (profile == "C13") p.lab = pick(r, textLabels);
        else if (profile == "C17" || profile == "C18") p.lab = r.pm(800) ? pick(r, baseLabels()) : pick(r, binLabels());
        else p.lab = pick(r, baseLabels());
    }
    const Kind kind = kindOf(p.cls, p.lab);
    const bool directed = directedOf(p.cls);
    // sizes
    unsigned z = (unsigned)r.below(100);
    p.n0 = z < 8 ? 0 : z < 16 ? 1 : 2 + (int64_t)r.below(5);
    // size bound of the run: mostly small (the full pair-wise sweep is what finds one-sided updates), sometimes
    // medium, rarely large (sparse sweep above 24 vertices) so that nothing silently depends on "at most 8 vertices"
    bool large = false;
    int hub = -1;
    {
        unsigned zz = (unsigned)r.below(1000);
        int64_t nmax = thorough ? 8 : 6;
        if (profile != "C18") {
            if (zz < (thorough ? 100u : 40u)) nmax = 12;
            else if (zz < (thorough ? 150u : 60u) && profile != "C15") { nmax = 72; large = true; } // (C15 enumerates cuts: one sweep per cut)
        }
        p.cfg["nmax"] = nmax;
        if (nmax > 8 && r.pm(700)) p.n0 = (int64_t)r.below((uint64_t)nmax + 1);
        if (large) {
            // large runs: up to 72 vertices, one or two hubs that collect long neighbour lists (thresholds such as
            // "more than 16/32/64 entries" are crossed), sparse sweep
            p.n0 = nmax - (int64_t)r.below(6);
            hub = r.pm(300) ? 0 : (int)r.below((uint64_t)p.n0);
            p.cfg["hub"] = hub + 1;
        }
    }
    const bool coldStart = profile == "C18" && r.pm(200);
    if (coldStart) { p.cfg["coldstart"] = 1; if (r.pm(350)) p.n0 = 0; }
    if (profile == "C18" && !coldStart && r.pm(12)) { // a shared graph above 1024 vertices (size thresholds inside the searches)
        p.cfg["nmax"] = 1500;
        p.n0 = 1030 + (int64_t)r.below(400);
        p.cfg["huge"] = 1;
    }
    if (profile == "C07" && !large && r.pm(10)) { // a few hundred vertices: size thresholds inside subgraph extraction and searches
        p.cfg["nmax"] = 300;
        p.n0 = 200 + (int64_t)r.below(100);
        p.cfg["xlarge"] = 1;
    }
    // very long histories (counters that trigger "every 1024th update" and the like): small graphs, few observer sweeps
    const bool longRun = !large && r.pm(4) && (profile == "C01" || profile == "C02" || profile == "C03" || profile == "C04" || profile == "C05" || profile == "C06" || profile == "C16");
    // multiplicities near the ends of the 32-bit range
    const bool extreme = (kind == MULTI) && r.pm(40) && profile != "C18";
    p.cfg["extreme"] = extreme;
    const bool forceMix = profile == "C17" && r.pm(150); // forced duplicates mixed with every mutator: memory safety only
    const bool force = profile == "C16" || forceMix;
    p.cfg["force"] = force;
    p.cfg["nomodel"] = forceMix;
    p.cfg["exact"] = ((profile == "C05" && r.pm(300)) || (profile == "C06" && r.pm(400))) ? 0 : 1;
    p.cfg["orphans"] = ((profile == "C07" && r.pm(500)) || (profile == "C16" && r.pm(300))) ? 1 : 0;
    p.cfg["nonneg"] = (profile == "C17" || profile == "C18" || profile == "C07") ? (r.pm(700) ? 1 : 0) : 0;
    int maxOps = thorough ? 120 : 40;
    int nops = 1 + (int)r.below((uint64_t)(r.pm(700) ? std::min(maxOps, 24) : maxOps));
    // fault rates (permille per op)
    auto rate = [&](std::initializer_list<int> v) { std::vector<int> w(v); return w[r.below(w.size())]; };
    int pReject = 0, pSnap = 0, pPersist = 0, pReplica = 0, pAlg = 0, pIo = 0;
    if (profile == "C01" || profile == "C02" || profile == "C03" || profile == "C04" || profile == "C05") {
        pReject = rate({0, 30, 100}); pSnap = rate({0, 30, 60}); pPersist = rate({0, 30, 60}); pReplica = rate({0, 0, 20});
        pAlg = rate({0, 20, 40}); // const operations (searches, conversions, subgraphs, printing) between mutations: must change nothing
    } else if (profile == "C06") { pReplica = rate({100, 200, 300}); pSnap = rate({40, 80, 150}); pPersist = rate({0, 30}); pAlg = rate({0, 20}); pReject = rate({0, 30, 60}); }
    else if (profile == "C07") { pReject = rate({300, 400, 500}); pSnap = rate({0, 30}); }
    else if (profile == "C16") { pSnap = rate({0, 20}); pAlg = rate({0, 20}); }
    else if (profile == "C17") { pAlg = rate({100, 200, 300}); pSnap = rate({20, 50}); pPersist = rate({30, 60}); pReplica = rate({0, 30}); pIo = rate({0, 40, 80}); }
    else if (profile == "C18") { pAlg = rate({100, 200, 300}); pSnap = rate({20, 50}); pPersist = rate({30, 60}); pReplica = rate({0, 30}); pIo = rate({0, 30}); }
    if (coldStart) { pAlg = pSnap = pPersist = pReplica = pIo = 0; nops = (int)r.below(8); }
    else if (profile == "C13" || profile == "C14" || profile == "C15") { pIo = rate({150, 300, 450}); pPersist = rate({100, 200}); nops = 1 + (int)r.below(thorough ? 40 : 20); }
    int pNoSweep = (profile == "C13" || profile == "C14" || profile == "C15") ? 0 : rate({0, 0, 0, 300, 600});
    if (large) { nops = 20 + (int)r.below(thorough ? 160 : 80); if (pNoSweep < 300) pNoSweep = 300; }
    if (coldStart) pNoSweep = 1000;
    if (p.c("xlarge")) { nops = 6 + (int)r.below(20); pReject = 600; pSnap = 0; }
    if (longRun) { nops = 1100 + (int)r.below(1600); pNoSweep = 880; pSnap = 0; pPersist = 0; pReplica = profile == "C06" ? 3 : 0; pReject = 0; p.cfg["long"] = 1; }
    p.cfg["p_nosweep"] = pNoSweep;
    p.cfg["p_reject"] = pReject; p.cfg["p_snapshot"] = pSnap; p.cfg["p_persist"] = pPersist; p.cfg["p_replica"] = pReplica; p.cfg["p_alg"] = pAlg; p.cfg["p_io"] = pIo;
    GenCfg gc = makeGenCfg(kind, directed, force && !forceMix, r, true, profile == "C03" ? 3 : 1, extreme);
    gc.hub = hub;
    sim::Op prev;
    if (large) { // bursts: the hub(s) are connected to (almost) every vertex first, in a seeded rotation and orientation;
        // sometimes the hub is then wiped by a bulk removal and populated again (state left behind by the first population
        // meets thresholds crossed by the second)
        int hubs = 1 + (int)r.below(2);
        const bool wipe = !force && r.pm(350);
        if (wipe) hubs = 2;
        for (int h = 0; h < hubs; ++h) {
            if (wipe && h == 1) {
                sim::Op w;
                w.k = r.pm(700) ? "remvert" : "clear";
                w.a = hub; w.b = hub; w.y = r.pm(500) ? F_NOSWEEP : 0;
                p.ops.push_back(w);
            }
            const int64_t hv = (h == 0 || wipe) ? hub : (int64_t)r.below((uint64_t)p.n0);
            const int64_t rot = (int64_t)r.below((uint64_t)p.n0);
            const unsigned skip = (unsigned)r.below(150);
            const bool down = r.pm(500);
            for (int64_t k = 0; k < p.n0; ++k) {
                if (r.pm(skip)) continue;
                sim::Op o;
                o.k = (kind == MULTI && r.pm(300)) ? "addmul" : "add";
                const int64_t other = ((down ? p.n0 - 1 - k : k) + rot) % p.n0;
                const bool flip = r.pm(500);
                o.a = flip ? other : hv;
                o.b = flip ? hv : other;
                o.x = r.pm(100) ? 0 : (int64_t)(1 + r.below(63));
                o.y = F_NOSWEEP | ((force && r.pm(300)) ? F_FORCE : 0);
                p.ops.push_back(o);
            }
        }
    }
    const bool templ = p.cls == "LD" || p.cls == "LU";
    for (int i = 0; i < nops; ++i) {
        unsigned t = (unsigned)r.below(1000);
        sim::Op o;
        if (t < (unsigned)pReject) {
            o.k = "reject"; o.x = (int64_t)r.below(256); o.a = (int64_t)r.below(1024); o.b = (int64_t)r.below(1024); o.y = (int64_t)r.below(16);
        } else if ((t -= (unsigned)pReject) < (unsigned)pSnap) {
            o.k = r.pm(500) ? "copy" : "assign"; o.x = (int64_t)r.below(1 << 20); o.a = (int64_t)r.below(128); o.b = (int64_t)r.below(128);
            if (pNoSweep && r.pm((unsigned)pNoSweep)) o.y = F_NOSWEEP;
        } else if ((t -= (unsigned)pSnap) < (unsigned)pPersist) {
            if (!templ) { --i; pPersist = 0; continue; }
            o.k = "persist"; o.x = (int64_t)r.below(2);
            if (profile == "C14") o.x = 1;
            if (profile == "C13") o.x = 0;
            o.y = 0;
            if (profile == "C13" || profile == "C14" || profile == "C17") o.y = r.pm(300) ? 3 : 0;
            if (profile == "C17" && r.pm(250)) o.y = r.pm(500) ? 4 : 5; // full disk / throwing formatter: memory safety only
            if (profile == "C15") o.y = r.pm(700) ? 2 : 3;
            o.a = (int64_t)r.below(4096); o.b = (int64_t)r.below(64);
        } else if ((t -= (unsigned)pPersist) < (unsigned)pReplica) {
            o.k = "replica"; o.x = (int64_t)r.below(1 << 24); o.y = (int64_t)r.below(3); o.b = (int64_t)r.below(64);
        } else if ((t -= (unsigned)pReplica) < (unsigned)pAlg) {
            o.k = "alg"; o.x = (int64_t)r.below(18); o.a = (int64_t)r.below(64); o.b = (int64_t)r.below(256);
        } else if ((t -= (unsigned)pAlg) < (unsigned)pIo) {
            if (!templ) { --i; pIo = 0; continue; }
            unsigned u = (unsigned)r.below(100);
            if ((profile == "C13" || profile == "C14" || profile == "C17") && r.pm(profile == "C17" ? 40 : 12)) {
                // a graph whose file is larger than any stream or block buffer (tens of KiB)
                o.k = "bigio"; o.x = profile == "C13" ? 0 : profile == "C14" ? 1 : (int64_t)r.below(2);
                o.a = (int64_t)r.below(1 << 16); o.b = 300 + (int64_t)r.below(600); o.y = (int64_t)r.below(1 << 20);
            } else if (profile == "C13") {
                if (u < 20) { o.k = "openfail"; o.x = (int64_t)r.below(5); o.y = (int64_t)r.below(9); if (o.x == 1 || o.x == 4) o.x -= 1; }
                else { o.k = "loadraw"; bool names = r.pm(450); o.x = names ? 1 : 0; o.y = 0; o.a = (int64_t)r.below(64); o.b = (int64_t)r.below(64); o.s = genWellFormedText(r, p.lab, directed, names); }
            } else if (profile == "C14" && r.pm(15)) {
                o.k = "earlyio";
            } else if (profile == "C14") {
                if (u < 40) { o.k = "openfail"; o.x = (int64_t)r.below(5); o.y = (int64_t)r.below(9); }
                else { o.k = "loadraw"; o.x = 2; o.y = 0; o.a = (int64_t)r.below(64); o.b = (int64_t)r.below(64); o.s = genBinaryFile(r, p.lab, directed, false); }
            } else if (profile == "C15") {
                bool binOk = !(p.lab == "string" || p.lab == "struct");
                bool textOk = true;
                if (u < 6 && binOk) { o.k = "cutall"; o.x = 1; o.s = genBinaryFile(r, p.lab, directed, false, true); } // every cut of a hand-made file with special index bytes
                else if (u < 45 && binOk) { o.k = "cutall"; o.x = 1; }
                else if (u < 55 && textOk) { o.k = "cutall"; o.x = 0; }
                else if (u < 75 && binOk) { o.k = "loadraw"; o.x = 2; o.y = 1; o.s = genBinaryFile(r, p.lab, directed, true); }
                else if (textOk) { o.k = "loadraw"; o.x = r.pm(700) ? 0 : 1; o.y = 1; o.s = genMalformedText(r, p.lab, p.c("wild", 0) != 0); }
                else { o.k = "cutall"; o.x = 1; }
            } else if (profile == "C17" && u < 40) { // the inputs of C15 are inputs of C17 too (only memory errors are charged to C17)
                bool binOk = !(p.lab == "string" || p.lab == "struct");
                if (u < 15 && binOk) { o.k = "cutall"; o.x = 1; }
                else if (u < 20) { o.k = "cutall"; o.x = 0; }
                else if (u < 30 && binOk) { o.k = "loadraw"; o.x = 2; o.y = 1; o.s = genBinaryFile(r, p.lab, directed, true); }
                else { o.k = "loadraw"; o.x = r.pm(700) ? 0 : 1; o.y = 1; o.s = genMalformedText(r, p.lab, false); }
            } else { // C17/C18: fault-free I/O
                if (u < 50 || p.lab == "string" || p.lab == "struct") { o.k = "loadraw"; bool names = r.pm(400); o.x = names ? 1 : 0; o.y = 0; o.s = genWellFormedText(r, p.lab, directed, names); }
                else { o.k = "loadraw"; o.x = 2; o.y = 0; o.s = genBinaryFile(r, p.lab, directed, false); }
            }
        } else {
            o = genMutator(r, gc, prev);
            prev = o;
            if (pNoSweep && r.pm((unsigned)pNoSweep)) o.y |= F_NOSWEEP;
            if (forceMix && (o.k == "add" || o.k == "addmul") && r.pm(350)) o.y |= F_FORCE;
            if ((kind == MULTI || kind == WEIGHTED) && r.pm(force ? 60 : 15)) o.k = "aslabeled";
            if (p.c("orphans") && kind == LABELED && r.pm(120)) o.k = "orphan";
        }
        p.ops.push_back(o);
    }
    // zero-vertex starts: most of them grow early, so that "all sizes from 0 up" is reached by resize histories
    if (p.n0 == 0 && r.pm(700)) {
        sim::Op o;
        o.k = "resize"; o.x = 1 + (int64_t)r.below(3);
        p.ops.insert(p.ops.begin() + (long)r.below(std::min<size_t>(p.ops.size(), 3) + 1), o);
    }
    // race phase
    if (profile == "C18") {
        int T = 2 + (int)r.below(3);
        for (int t = 0; t < T; ++t) {
            std::vector<sim::Op> ops;
            int k = 3 + (int)r.below(8);
            for (int i = 0; i < k; ++i) {
                sim::Op o;
                o.k = "alg"; o.x = (int64_t)r.below(18); o.a = (int64_t)r.below(64); o.b = (int64_t)r.below(256);
                ops.push_back(o);
            }
            p.tasks.push_back(ops);
        }
        int np = 16 + (int)r.below(48);
        // bursty schedules: runs of the same pick keep one task running for a while
        int64_t cur = (int64_t)r.below(64);
        for (int i = 0; i < np; ++i) {
            if (r.pm(600)) cur = (int64_t)r.below(64);
            p.sched.push_back(cur);
        }
    }
    return p;
}

} // namespace gs
