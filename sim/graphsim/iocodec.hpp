// Label codecs for the text format, byte-level helpers, and the independent reference codecs of both file formats.
#pragma once
#include "labels.hpp"
#include "../core/digest.hpp"
#include "BaseGraph/fileio.hpp"
#include <cstdio>
#include <cstring>
#include <string>
#include <tuple>
#include <vector>

namespace gs {

// ---------------------------------------------------------------- label <-> text
template <class L, class = void>
struct Codec { // default: no codec
    static const bool text = false, bin = false;
};
template <>
struct Codec<BaseGraph::NoLabel> {
    static const bool text = true, bin = true;
    static std::string toStr(const BaseGraph::NoLabel &) { return ""; }
    static BaseGraph::NoLabel fromStr(const std::string &) { return BaseGraph::NoLabel(); }
};
template <class L>
struct Codec<L, typename std::enable_if<std::is_integral<L>::value>::type> {
    static const bool text = true, bin = true;
    static std::string toStr(const L &v) {
        if (std::is_signed<L>::value) return std::to_string((long long)v);
        return std::to_string((unsigned long long)v);
    }
    static L fromStr(const std::string &s) {
        if (std::is_signed<L>::value) return (L)std::stoll(s);
        return (L)std::stoull(s);
    }
};
template <>
struct Codec<double> {
    static const bool text = true, bin = true;
    static std::string toStr(const double &v) { char b[64]; snprintf(b, sizeof b, "%.17g", v); return b; }
    static double fromStr(const std::string &s) { return strtod(s.c_str(), nullptr); }
};
template <>
struct Codec<float> {
    static const bool text = true, bin = true;
    static std::string toStr(const float &v) { char b[64]; snprintf(b, sizeof b, "%.9g", (double)v); return b; }
    static float fromStr(const std::string &s) { return strtof(s.c_str(), nullptr); }
};
template <>
struct Codec<std::string> {
    static const bool text = true, bin = false;
    static std::string toStr(const std::string &v) { return v; }
    static std::string fromStr(const std::string &s) { return s; }
};
template <>
struct Codec<SLabel> {
    static const bool text = true, bin = false;
    static std::string toStr(const SLabel &v) { char b[64]; snprintf(b, sizeof b, "%.17g", v.d); return v.s + "|" + b; }
    static SLabel fromStr(const std::string &s) {
        SLabel l;
        auto p = s.rfind('|');
        if (p == std::string::npos) return l;
        l.s = s.substr(0, p);
        l.d = strtod(s.c_str() + p + 1, nullptr);
        return l;
    }
};

// ---------------------------------------------------------------- raw bytes of a file (harness side; plain stdio)
inline bool readFileBytes(const std::string &path, std::string &out) {
    out.clear();
    FILE *f = fopen(path.c_str(), "rb");
    if (!f) return false;
    char buf[4096];
    size_t k;
    while ((k = fread(buf, 1, sizeof buf, f)) > 0) out.append(buf, k);
    fclose(f);
    return true;
}
inline bool writeFileBytes(const std::string &path, const std::string &bytes) {
    FILE *f = fopen(path.c_str(), "wb");
    if (!f) return false;
    if (!bytes.empty()) fwrite(bytes.data(), 1, bytes.size(), f);
    fclose(f);
    return true;
}
inline uint64_t bytesDigest(const std::string &b) {
    sim::Digest d;
    d.str(b);
    return d.h;
}

// ---------------------------------------------------------------- library calls per label type
template <template <class...> class Graph, class L>
void libWriteText(const Graph<L> &g, const std::string &path) {
    if constexpr (std::is_same<L, BaseGraph::NoLabel>::value) BaseGraph::io::writeTextEdgeList(g, path);
    else BaseGraph::io::writeTextEdgeList<Graph, L>(g, path, [](const L &l) { return Codec<L>::toStr(l); });
}
template <template <class...> class Graph, class L>
Graph<L> libLoadText(const std::string &path) {
    return BaseGraph::io::loadTextEdgeList<Graph, L>(path, [](const std::string &s) { return Codec<L>::fromStr(s); }).first;
}
template <template <class...> class Graph, class L>
void libWriteBin(const Graph<L> &g, const std::string &path) {
    BaseGraph::io::writeBinaryEdgeList(g, path);
}
template <template <class...> class Graph, class L>
Graph<L> libLoadBin(const std::string &path) {
    return BaseGraph::io::loadBinaryEdgeList<Graph, L>(path);
}

// writes the graph in every format its label type supports; returns the digest of the bytes written
template <template <class...> class Graph, class L>
uint64_t writeBoth(const Graph<L> &g, const std::string &stem) {
    sim::Digest d;
    std::string bytes;
    if constexpr (Codec<L>::text) {
        libWriteText(g, stem + ".txt");
        readFileBytes(stem + ".txt", bytes);
        d.str(bytes);
    }
    if constexpr (Codec<L>::bin) {
        libWriteBin(g, stem + ".bin");
        readFileBytes(stem + ".bin", bytes);
        d.str(bytes);
    }
    return d.h;
}

// ---------------------------------------------------------------- independent reference codecs
// binary: one record per edge, u32le source, u32le destination, sizeof(L) little-endian label bytes
template <class L>
struct RefBin {
    static const size_t labelSize = std::is_same<L, BaseGraph::NoLabel>::value ? 0 : sizeof(L);
    static const size_t rec = 8 + labelSize;
    struct Rec { unsigned a, b; std::string lab; };
    static unsigned u32(const unsigned char *p) { return (unsigned)p[0] | ((unsigned)p[1] << 8) | ((unsigned)p[2] << 16) | ((unsigned)p[3] << 24); }
    static std::vector<Rec> decode(const std::string &bytes, size_t maxRecords = (size_t)-1) {
        std::vector<Rec> r;
        size_t nrec = bytes.size() / rec;
        if (nrec > maxRecords) nrec = maxRecords;
        for (size_t i = 0; i < nrec; ++i) {
            const unsigned char *p = (const unsigned char *)bytes.data() + i * rec;
            Rec x;
            x.a = u32(p); x.b = u32(p + 4);
            x.lab.assign((const char *)p + 8, labelSize);
            r.push_back(x);
        }
        return r;
    }
    static void put32(std::string &out, unsigned v) { for (int i = 0; i < 4; ++i) out += (char)((v >> (8 * i)) & 0xff); }
    // label bytes in little-endian order, produced by shifting (integers) or from the object representation on this
    // little-endian host (floating point) - the host order is asserted once in main()
    static std::string labelBytes(const L &l) {
        std::string s;
        if constexpr (std::is_same<L, BaseGraph::NoLabel>::value) { (void)l; }
        else if constexpr (std::is_integral<L>::value) {
            unsigned long long v = (unsigned long long)l;
            for (size_t i = 0; i < sizeof(L); ++i) s += (char)((v >> (8 * i)) & 0xff);
        } else {
            s.assign((const char *)&l, sizeof(L));
        }
        return s;
    }
    static std::string encode(unsigned a, unsigned b, const L &l) {
        std::string s;
        put32(s, a); put32(s, b);
        s += labelBytes(l);
        return s;
    }
};

// text: '#'-lines are comments; otherwise  ws* tok ws+ tok (ws+ rest)?   with ws = space | tab
struct RefTextLine { std::string t1, t2, rest; };
inline bool refIsBlank(char c) { return c == ' ' || c == '\t'; }
inline std::vector<RefTextLine> refParseText(const std::string &bytes, bool &wellFormed) {
    std::vector<RefTextLine> r;
    wellFormed = true;
    size_t p = 0;
    while (p < bytes.size()) {
        size_t e = bytes.find('\n', p);
        std::string line = bytes.substr(p, e == std::string::npos ? std::string::npos : e - p);
        p = e == std::string::npos ? bytes.size() : e + 1;
        if (!line.empty() && line[0] == '#') continue;
        size_t i = 0;
        while (i < line.size() && refIsBlank(line[i])) ++i;
        size_t s1 = i;
        while (i < line.size() && !refIsBlank(line[i])) ++i;
        RefTextLine l;
        l.t1 = line.substr(s1, i - s1);
        while (i < line.size() && refIsBlank(line[i])) ++i;
        size_t s2 = i;
        while (i < line.size() && !refIsBlank(line[i])) ++i;
        l.t2 = line.substr(s2, i - s2);
        while (i < line.size() && refIsBlank(line[i])) ++i;
        l.rest = line.substr(i);
        if (l.t1.empty() || l.t2.empty()) { wellFormed = false; continue; }
        r.push_back(l);
    }
    return r;
}

} // namespace gs
