// StepSim (C19): path searches on an instrumented graph type; the number of neighbourhood scans is the
// simulator's logical clock and the property's bound is a deadline in that clock (deterministic abort, no wall clock).
#pragma once
#include "../graphsim/algs.hpp"

namespace gs {

struct StepGraphSpec {
    int family, p1, p2;
    bool directed, loops;
    uint64_t gseed;
};

inline const char *stepFamilyName(int f) {
    static const char *n[] = {"layered", "grid", "hypercube", "complete", "complete_bipartite", "ladder", "ring", "zero_weight_clique", "gnp", "diamond_chain", "skip_chain", "convex_dag", "plain_ladder", "path_with_duplicate_edges", "routes_to_junction_with_tail"};
    return n[f % 15];
}

// edge list of a family member; vertices 0..V-1
inline unsigned buildFamily(const StepGraphSpec &s, std::vector<std::pair<unsigned, unsigned>> &es) {
    es.clear();
    sim::Rng r(s.gseed);
    unsigned V = 0;
    switch (s.family % 15) {
    case 0: { // layered: source, d layers of width w fully connected layer to layer, sink  (w^d shortest paths)
        int w = 2 + s.p1 % 4, d = 2 + s.p2 % 39;
        while ((long)w * d > 160) --d;
        V = 2 + (unsigned)(w * d);
        for (int j = 0; j < w; ++j) es.emplace_back(0, 1 + j);
        for (int l = 0; l + 1 < d; ++l)
            for (int i = 0; i < w; ++i)
                for (int j = 0; j < w; ++j) es.emplace_back(1 + l * w + i, 1 + (l + 1) * w + j);
        for (int i = 0; i < w; ++i) es.emplace_back(1 + (d - 1) * w + i, V - 1);
        break;
    }
    case 1: { // k x k grid (binomially many shortest paths)
        int k = 2 + s.p1 % 11;
        V = (unsigned)(k * k);
        for (int i = 0; i < k; ++i)
            for (int j = 0; j < k; ++j) {
                if (j + 1 < k) es.emplace_back(i * k + j, i * k + j + 1);
                if (i + 1 < k) es.emplace_back(i * k + j, (i + 1) * k + j);
            }
        break;
    }
    case 2: { // hypercube of dimension q
        int q = 1 + s.p1 % 8;
        V = 1u << q;
        for (unsigned v = 0; v < V; ++v)
            for (int b = 0; b < q; ++b)
                if (!(v & (1u << b))) es.emplace_back(v, v | (1u << b));
        break;
    }
    case 3: { // complete graph
        V = 2 + (unsigned)(s.p1 % 30);
        for (unsigned i = 0; i < V; ++i)
            for (unsigned j = i + 1; j < V; ++j) es.emplace_back(i, j);
        break;
    }
    case 4: { // complete bipartite
        unsigned a = 1 + (unsigned)(s.p1 % 14), b = 1 + (unsigned)(s.p2 % 14);
        V = a + b;
        for (unsigned i = 0; i < a; ++i)
            for (unsigned j = 0; j < b; ++j) es.emplace_back(i, a + j);
        break;
    }
    case 5: { // ladder with diagonals
        unsigned L = 2 + (unsigned)(s.p1 % 40);
        V = 2 * L;
        for (unsigned i = 0; i < L; ++i) {
            es.emplace_back(2 * i, 2 * i + 1);
            if (i + 1 < L) { es.emplace_back(2 * i, 2 * i + 2); es.emplace_back(2 * i + 1, 2 * i + 3); es.emplace_back(2 * i, 2 * i + 3); es.emplace_back(2 * i + 1, 2 * i + 2); }
        }
        break;
    }
    case 6: { // ring
        V = 3 + (unsigned)(s.p1 % 100);
        for (unsigned i = 0; i < V; ++i) es.emplace_back(i, (i + 1) % V);
        break;
    }
    case 7: { // clique (zero weights in the weighted searches)
        V = 3 + (unsigned)(s.p1 % 16);
        for (unsigned i = 0; i < V; ++i)
            for (unsigned j = i + 1; j < V; ++j) es.emplace_back(i, j);
        break;
    }
    case 8: { // G(n,p)
        V = 2 + (unsigned)(s.p1 % 299);
        unsigned pm = 5 + (unsigned)(s.p2 % 300);
        if (V > 80) pm = 5 + pm % 60;
        for (unsigned i = 0; i < V; ++i)
            for (unsigned j = s.directed ? 0 : i + 1; j < V; ++j)
                if (i != j && r.pm(pm)) es.emplace_back(i, j);
        break;
    }
    case 10: { // chain with skip edges: expensive shortcuts reach a vertex before the cheap multi-hop route does
        V = 4 + (unsigned)(s.p1 % 60);
        unsigned K = 2 + (unsigned)(s.p2 % 4);
        for (unsigned i = 0; i < V; ++i)
            for (unsigned k = 1; k <= K && i + k < V; ++k) es.emplace_back(i, i + k);
        break;
    }
    case 11: { // complete DAG (forward edges only), convex weights in the weighted searches
        V = 3 + (unsigned)(s.p1 % 30);
        for (unsigned i = 0; i < V; ++i)
            for (unsigned j = i + 1; j < V; ++j) es.emplace_back(i, j);
        break;
    }
    case 12: { // plain ladder: two rails and a rung per level (non-bipartite only through the rungs: long single-predecessor chains)
        unsigned L = 2 + (unsigned)(s.p1 % 60);
        V = 2 * L;
        for (unsigned i = 0; i < L; ++i) {
            es.emplace_back(2 * i, 2 * i + 1);
            if (i + 1 < L) { es.emplace_back(2 * i, 2 * i + 2); es.emplace_back(2 * i + 1, 2 * i + 3); }
        }
        break;
    }
    case 13: { // path whose edges are inserted several times with force=true (each copy counts in E)
        V = 3 + (unsigned)(s.p1 % 40);
        unsigned copies = 2 + (unsigned)(s.p2 % 3);
        for (unsigned i = 0; i + 1 < V; ++i)
            for (unsigned c = 0; c < copies; ++c) es.emplace_back(i, i + 1);
        break;
    }
    case 14: { // m disjoint routes of different edge counts from the source to a junction, then a long tail behind it
        unsigned mroutes = 2 + (unsigned)(s.p1 % 11), tail = 5 + (unsigned)(s.p2 % 120);
        unsigned next = 1;
        std::vector<unsigned> ends;
        const unsigned shortest = (s.p1 / 11) % 3; // 0: one route is the direct edge; otherwise every route has inner vertices
        for (unsigned i = 0; i < mroutes; ++i) { // route i has shortest + i inner vertices
            unsigned prev = 0;
            for (unsigned k = 0; k < shortest + i; ++k) { es.emplace_back(prev, next); prev = next++; }
            ends.push_back(prev);
        }
        const unsigned J = next++;
        for (unsigned e : ends) es.emplace_back(e, J);
        unsigned prev = J;
        for (unsigned k = 0; k < tail; ++k) { es.emplace_back(prev, next); if (k % 3 == 2) es.emplace_back(J, next); prev = next++; }
        V = next;
        break;
    }
    default: { // chain of diamonds: 2^d shortest paths with 3d+1 vertices
        int d = 1 + s.p1 % 40;
        V = (unsigned)(3 * d + 1);
        for (int i = 0; i < d; ++i) {
            unsigned a = (unsigned)(3 * i);
            es.emplace_back(a, a + 1); es.emplace_back(a, a + 2); es.emplace_back(a + 1, a + 3); es.emplace_back(a + 2, a + 3);
        }
        break;
    }
    }
    if (s.loops)
        for (unsigned v = 0; v < V; ++v) if (r.pm(200)) es.emplace_back(v, v);
    // seeded insertion order (neighbour-list order is part of the input space)
    for (size_t i = es.size(); i > 1; --i) std::swap(es[i - 1], es[r.below(i)]);
    return V;
}

inline double stepWeight(unsigned a, unsigned b, uint64_t seed, int family) {
    if (family % 15 == 7) return 0.0;
    // weight scheme of the graph: dyadic alphabet with zeros and ties (exact sums), a uniform non-dyadic weight, a small
    // non-dyadic alphabet (sums that round), all zero, or zero except rare tiny weights that are absorbed by larger sums
    const int scheme = (int)((seed >> 7) % 6);
    if (family % 15 == 14 && scheme < 2) return 0.0;
    if (scheme == 2) return 0.1;
    if (scheme == 4) return 0.0;
    if (family % 15 == 10 || family % 15 == 11) { // convex in the span: every shortcut is worse than the hops it skips
        double d = a < b ? (double)(b - a) : (double)(a - b);
        return d * d;
    }
    static const double w[4] = {0.0, 0.25, 1.0, 3.0};
    static const double nd[4] = {0.1, 0.2, 0.3, 0.7};
    uint64_t x = seed ^ ((uint64_t)a * 0x9e3779b97f4a7c15ULL) ^ ((uint64_t)b * 0xc2b2ae3d27d4eb4fULL);
    x ^= x >> 31; x *= 0xbf58476d1ce4e5b9ULL; x ^= x >> 29;
    if (scheme == 3) return nd[x & 3];
    if (scheme == 5) return (x & 15) == 0 ? 1e-30 : ((x & 15) == 1 ? 1.0 : 0.0);
    return w[x & 3];
}

template <class GT>
long totalListLength(const GT &g) {
    long e = 0;
    for (VertexIndex v : g) e += (long)g.getOutNeighbours(v).size();
    return e;
}

inline void runStepPlan(const sim::Plan &plan, sim::RunResult &res, Env &env) {
    namespace alg = BaseGraph::algorithms;
    sim::Digest dg;
    long totalSteps = 0;
    for (size_t i = 0; i < plan.ops.size(); ++i) {
        const sim::Op &op = plan.ops[i];
        if (op.k != "steps") continue;
        StepGraphSpec s;
        s.family = (int)modn(op.x, 15);
        s.p1 = (int)modn(op.a, 1 << 20);
        s.p2 = (int)modn(op.b, 1 << 20);
        const int algo = (int)modn(op.y, 3);
        s.directed = ((op.y >> 2) & 1) != 0;
        s.loops = ((op.y >> 3) & 1) != 0;
        s.gseed = (uint64_t)(op.y >> 12) * 0x9e3779b97f4a7c15ULL + 7;
        std::vector<std::pair<unsigned, unsigned>> es;
        const unsigned V = buildFamily(s, es);
        const bool dupForce = s.family == 13;
        const unsigned src = (op.y >> 4) & 1 ? modn(op.y >> 5, V) : 0; // source 0 (the "many paths" source) or a seeded vertex
        static const char *algName[3] = {"findVertexPredecessors", "findAllVertexPredecessors", "findGeodesicsDijkstra"};
        long clock = 0, bound = 0;
        std::string cls = std::string("C19/step_budget_exceeded/") + algName[algo] + "/" + stepFamilyName(s.family) + (s.directed ? "/directed" : "/undirected");
        bool exceeded = false;
        std::string what;
        try {
            if (algo == 2) {
                if (s.directed) {
                    BaseGraph::DirectedWeightedGraph g(V);
                    for (auto &e : es) g.addEdge(e.first, e.second, stepWeight(e.first, e.second, s.gseed, s.family), dupForce);
                    bound = (long)V + totalListLength(g) + 1;
                    Counting<BaseGraph::DirectedWeightedGraph> cg(g, &clock, bound);
                    auto r = alg::findGeodesicsDijkstra(cg, src);
                    for (double d : r.first) dg.dbl(d);
                } else {
                    BaseGraph::UndirectedWeightedGraph g(V);
                    for (auto &e : es) g.addEdge(e.first, e.second, stepWeight(std::min(e.first, e.second), std::max(e.first, e.second), s.gseed, s.family), dupForce);
                    bound = (long)V + totalListLength(g) + 1;
                    Counting<BaseGraph::UndirectedWeightedGraph> cg(g, &clock, bound);
                    auto r = alg::findGeodesicsDijkstra(cg, src);
                    for (double d : r.first) dg.dbl(d);
                }
            } else if (s.directed) {
                BaseGraph::DirectedGraph g(V);
                for (auto &e : es) g.addEdge(e.first, e.second, dupForce);
                bound = algo == 0 ? (long)V : (long)V + totalListLength(g);
                Counting<BaseGraph::DirectedGraph> cg(g, &clock, bound);
                if (algo == 0) { auto r = alg::findVertexPredecessors(cg, src); for (auto d : r.first) dg.u64(d); }
                else { auto r = alg::findAllVertexPredecessors(cg, src); for (auto d : r.first) dg.u64(d); }
            } else {
                BaseGraph::UndirectedGraph g(V);
                for (auto &e : es) g.addEdge(e.first, e.second, dupForce);
                bound = algo == 0 ? (long)V : (long)V + totalListLength(g);
                Counting<BaseGraph::UndirectedGraph> cg(g, &clock, bound);
                if (algo == 0) { auto r = alg::findVertexPredecessors(cg, src); for (auto d : r.first) dg.u64(d); }
                else { auto r = alg::findAllVertexPredecessors(cg, src); for (auto d : r.first) dg.u64(d); }
            }
        } catch (const StepBudgetExceeded &) {
            exceeded = true;
        } catch (const std::exception &ex) {
            what = ex.what();
        }
        totalSteps += clock;
        dg.u64((uint64_t)clock);
        res.faults.inc(std::string("search_") + algName[algo]);
        res.probes.inc(std::string("family_") + stepFamilyName(s.family));
        if (V >= 20) res.probes.inc("graphs_with_20_or_more_vertices");
        if (bound > 0) {
            long ratio = clock * 100 / bound;
            auto &mx = res.probes.m["max_steps_over_bound_percent"];
            if (ratio > mx) mx = ratio;
        }
        if (env.trace) fprintf(stderr, "step %zu: %s %s V=%u E=%zu src=%u scans=%ld bound=%ld%s\n", i + 1, algName[algo], stepFamilyName(s.family), V, es.size(), src, clock, bound, exceeded ? " EXCEEDED" : "");
        if (exceeded && !res.v.set) {
            res.v.set = true;
            res.v.prop = "C19";
            res.v.cls = cls;
            res.v.step = (int64_t)i + 1;
            res.v.msg = std::string(algName[algo]) + " on " + stepFamilyName(s.family) + " V=" + std::to_string(V) + " listlen-bound=" + std::to_string(bound) + ": more than " + std::to_string(bound) + " neighbourhood scans";
            break;
        }
        if (!what.empty() && !res.v.set) {
            sim::Violation o;
            o.set = true; o.prop = "C11"; o.cls = std::string("C11/unexpected_exception/") + algName[algo]; o.step = (int64_t)i + 1; o.msg = what;
            res.others.push_back(o);
        }
    }
    res.digest = dg.h;
    res.rawDigest = dg.h;
    res.steps = totalSteps;
    res.stateHash = dg.h;
    res.nontrivial = totalSteps > 0;
}

} // namespace gs
