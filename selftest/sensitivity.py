#!/usr/bin/env python3
"""Sensitivity self-test over mutants/index.json: every mutant must be caught by the quick check of each property it
breaks, and the checks listed as 'clean' must stay green on it (false-alarm half).
  usage: selftest/sensitivity.py [--only substring] [--scale F] [--out file.json]
Scratch copies live under /dev/shm and are removed after each mutant."""
import json
import os
import subprocess
import sys
import time

VERIF = os.path.dirname(os.path.dirname(os.path.abspath(__file__)))
CFG = {'C07': 'g2,ca', 'C15': 'g2,g2w,ca', 'C17': 'gd,ca,g2', 'C18': 'ts'}


def main():
    only = None
    names = None
    scale = '0.5'
    out = os.environ.get('BGSENS_OUT', '/verif/selftest/results/sensitivity.json')
    a = sys.argv[1:]
    for i, x in enumerate(a):
        if x == '--only':
            only = a[i + 1]
        if x == '--scale':
            scale = a[i + 1]
        if x == '--out':
            out = a[i + 1]
        if x == '--names':
            names = a[i + 1].split(',')
    index = json.load(open(os.path.join(VERIF, 'mutants', 'index.json')))
    results = []
    t0 = time.time()
    for m in index:
        if only and only not in m['name']:
            continue
        if names and not any(m['name'].startswith(x) for x in names):
            continue
        tmp = '/dev/shm/sens.%d.json' % os.getpid()
        per = []
        # each broken property is run with the configurations that property needs
        groups = {}
        for prop in m['breaks']:
            groups.setdefault(CFG.get(prop, 'g2'), []).append(prop)
        first = True
        ok = True
        for cfgs, props in groups.items():
            cmd = [os.path.join(VERIF, 'selftest', 'mutant.py'), '--patch', os.path.join(VERIF, 'mutants', m['patch']), '--target', ','.join(props),
                   '--target-configs', cfgs, '--scale', scale, '--json', tmp]
            if first and m['clean']:
                cmd += ['--also', ','.join(m['clean'])]
            first = False
            r = subprocess.run(cmd, stdout=subprocess.PIPE, stderr=subprocess.STDOUT, text=True)
            if os.path.exists(tmp):
                j = json.load(open(tmp))
                per += j['results']
                ok = ok and j['ok']
                os.unlink(tmp)
            else:
                ok = False
                per.append(dict(check='?', exit=-1, expected=1, classes=[r.stdout[-300:]]))
        if not m['breaks'] and m['clean']:
            cmd = [os.path.join(VERIF, 'selftest', 'mutant.py'), '--patch', os.path.join(VERIF, 'mutants', m['patch']), '--also', ','.join(m['clean']), '--json', tmp]
            subprocess.run(cmd, stdout=subprocess.PIPE, stderr=subprocess.STDOUT, text=True)
            if os.path.exists(tmp):
                j = json.load(open(tmp))
                per += j['results']
                ok = ok and j['ok']
                os.unlink(tmp)
        line = '%-55s %s  %s' % (m['name'], 'ok ' if ok else 'NOT-AS-EXPECTED', ' '.join('%s=%d' % (x['check'], x['exit']) for x in per))
        print(line, flush=True)
        results.append(dict(name=m['name'], ok=ok, breaks=m['breaks'], clean=m['clean'], results=per, note=m.get('note', '')))
        os.makedirs(os.path.dirname(out), exist_ok=True)
        with open(out, 'w') as f:
            json.dump(dict(wall_s=round(time.time() - t0, 1), scale=scale, results=results), f, indent=1)
    bad = [r['name'] for r in results if not r['ok']]
    print('sensitivity: %d mutants, %d as expected, not as expected: %s' % (len(results), len(results) - len(bad), bad))
    return 0 if not bad else 1


if __name__ == '__main__':
    sys.exit(main())
