#!/usr/bin/env python3
"""Prints the markdown summary of the sensitivity self-tests (mutants/index.json + selftest/results/*.json + seeded/*/meta.json)."""
import glob
import json
import os

VERIF = os.path.dirname(os.path.dirname(os.path.abspath(__file__)))


def main():
    res = {}
    for f in sorted(glob.glob(os.path.join(VERIF, 'selftest', 'results', 'sensitivity*.json'))):
        try:
            j = json.load(open(f))
        except ValueError:
            continue
        for r in j['results']:
            res[r['name']] = (r, os.path.basename(f))  # later files win
    index = json.load(open(os.path.join(VERIF, 'mutants', 'index.json')))
    print('| mutant | must fail | must stay green | result |')
    print('|---|---|---|---|')
    ok = bad = missing = 0
    for m in index:
        r = res.get(m['name'])
        if not r:
            missing += 1
            print('| %s | %s | %s | (not run) |' % (m['name'], ' '.join(m['breaks']) or '-', ' '.join(m['clean']) or '-'))
            continue
        r = r[0]
        got = {x['check']: x['exit'] for x in r['results']}
        good = all(got.get(p) == 1 for p in m['breaks']) and all(got.get(p) == 0 for p in m['clean'])
        ok += good
        bad += not good
        print('| %s | %s | %s | %s |' % (m['name'], ' '.join(m['breaks']) or '-', ' '.join(m['clean']) or '-',
                                      ' '.join('%s=%s' % (k, 'FAIL' if v == 1 else 'ok' if v == 0 else 'exit%d' % v) for k, v in got.items()) + ('' if good else ' **unexpected**')))
    print()
    print('%d mutants as expected, %d not as expected, %d not run.' % (ok, bad, missing))
    print()
    det = nd = 0
    rows = []
    for d in sorted(glob.glob(os.path.join(VERIF, 'seeded', '*'))):
        mp = os.path.join(d, 'meta.json')
        if not os.path.exists(mp):
            continue
        m = json.load(open(mp))
        fp = m.get('first_pass', {}).get('detected')
        fin = m.get('detected')
        det += bool(fin)
        nd += not fin
        rows.append((m.get('id', os.path.basename(d)), m.get('property'), fp, fin))
    print('Seeded changes: %d detected by the check of their property with the final machinery, %d not.' % (det, nd))
    print('not detected:', [r[0] for r in rows if not r[3]])


if __name__ == '__main__':
    main()
