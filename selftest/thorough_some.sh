#!/bin/bash
cd "$(dirname "$0")/.."
make -j16 all >/dev/null 2>&1
for p in "$@"; do
  echo "=== $p $(date +%H:%M:%S)"
  bin/check $p --tier thorough 2>&1 | grep -E "VIOLATION|KNOWN|class:|minimised|^  [a-zA-Z]|check: .*(thorough:|done|other|did not)" | cut -c1-300
done
