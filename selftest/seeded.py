#!/usr/bin/env python3
"""Runs the registered checks against every seeded change under /verif/seeded (scratch copy, never /repo) and records
which checks catch which change in seeded/<id>/meta.json.   usage: selftest/seeded.py [id ...] [--scale F]"""
import json, os, re, subprocess, sys
VERIF = os.path.dirname(os.path.dirname(os.path.abspath(__file__)))
CFG = {'C07': 'g2,ca', 'C15': 'g2,g2w,ca', 'C17': 'gd,ca,g2', 'C18': 'ts'}
ALSO = {'C01': 'C02', 'C02': 'C01', 'C03': 'C01', 'C04': 'C05', 'C05': 'C04', 'C06': 'C01', 'C07': 'C01', 'C13': 'C14', 'C14': 'C13',
        'C15': 'C14', 'C16': 'C01', 'C17': 'C19', 'C18': 'C19', 'C19': 'C01'}
args = [a for a in sys.argv[1:] if not a.startswith('--')]
scale = '0.5'
for i, a in enumerate(sys.argv):
    if a == '--scale': scale = sys.argv[i + 1]
args = [a for a in args if a != scale]
ids = args or sorted(os.listdir(os.path.join(VERIF, 'seeded')))
for sid in ids:
    d = os.path.join(VERIF, 'seeded', sid)
    if not os.path.exists(os.path.join(d, 'patch.diff')):
        continue
    prop = sid.split('-')[0]
    out = os.path.join('/dev/shm', 'seeded.%s.json' % sid)
    cmd = [os.path.join(VERIF, 'selftest', 'mutant.py'), '--patch', os.path.join(d, 'patch.diff'), '--target', prop, '--scale', scale,
           '--target-configs', CFG.get(prop, 'g2'), '--also', ALSO.get(prop, ''), '--json', out]
    r = subprocess.run(cmd, stdout=subprocess.PIPE, stderr=subprocess.STDOUT, text=True)
    print('== %s\n%s' % (sid, r.stdout.strip()), flush=True)
    res = json.load(open(out)) if os.path.exists(out) else {'results': []}
    mp = os.path.join(d, 'meta.json')
    meta = json.load(open(mp)) if os.path.exists(mp) else {}
    meta.setdefault('property', prop)
    meta['checked_with'] = ' '.join(cmd[1:])
    meta['results'] = res['results']
    meta['detected'] = any(x['check'] == prop and x['exit'] == 1 for x in res['results'])
    meta['violation_classes'] = [c for x in res['results'] if x['check'] == prop for c in x['classes']]
    json.dump(meta, open(mp, 'w'), indent=1)
    if os.path.exists(out): os.unlink(out)
