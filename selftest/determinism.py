#!/usr/bin/env python3
"""Determinism self-test: one seed = one exactly repeatable run.
For every profile, N run indices are executed (a) in one process, (b) split over 4 and (c) over 16 processes (so each run
follows different predecessors in its worker), and (d) in a second build configuration; the (index -> digest) maps must be
identical (raw digest within a configuration, canonical digest across configurations).
  usage: selftest/determinism.py [--n 2000] [--profiles C01,C02] [--configs g2,c2]"""
import json
import os
import subprocess
import sys
from concurrent.futures import ThreadPoolExecutor

VERIF = os.path.dirname(os.path.dirname(os.path.abspath(__file__)))
BUILD = os.environ.get('BGSIM_BUILD') or os.path.join(VERIF, 'build')
PROFILES = ['C01', 'C02', 'C03', 'C04', 'C05', 'C06', 'C07', 'C13', 'C14', 'C15', 'C16', 'C17', 'C18', 'C19']


def run(cfg, profile, n, start, stride, base):
    p = subprocess.run([os.path.join(BUILD, 'bgsim.' + cfg), '--profile', profile, '--base', str(base), '--range', '%d:%d:%d' % (start, n, stride)],
                       stdout=subprocess.PIPE, stderr=subprocess.PIPE, text=True)
    out = {}
    for line in p.stdout.splitlines():
        if line.startswith('{'):
            j = json.loads(line)
            if 'summary' not in j:
                out[j['i']] = (j['d'], j['r'], j['v']['cls'] if j['v'] else None)
    return p.returncode, out


def split(cfg, profile, n, W, base):
    res = {}
    with ThreadPoolExecutor(max_workers=W) as ex:
        for rc, out in ex.map(lambda w: run(cfg, profile, n, w, W, base), range(W)):
            if rc not in (0,):
                res['rc'] = rc
            res.update(out)
    return res


def main():
    n = 2000
    profiles = PROFILES
    configs = ['g2', 'c2']
    a = sys.argv[1:]
    for i, x in enumerate(a):
        if x == '--n':
            n = int(a[i + 1])
        if x == '--profiles':
            profiles = a[i + 1].split(',')
        if x == '--configs':
            configs = a[i + 1].split(',')
    subprocess.run(['make', '-C', VERIF, '-j16', 'B=' + BUILD] + ['cfg-' + c for c in configs], stdout=subprocess.DEVNULL, check=True)
    bad = 0
    summary = {}
    for profile in profiles:
        nn = n if profile not in ('C18',) or configs[0] != 'ts' else n // 4
        ref = split(configs[0], profile, nn, 1, 7)
        ok = len(ref) >= nn
        notes = []
        for W in (4, 16):
            got = split(configs[0], profile, nn, W, 7)
            diff = [i for i in range(nn) if ref.get(i) != got.get(i)]
            if diff:
                ok = False
                notes.append('W=%d differs at %s' % (W, diff[:5]))
        again = split(configs[0], profile, nn, 1, 7)
        if again != ref:
            ok = False
            notes.append('second identical invocation differs')
        for cfg in configs[1:]:
            other = split(cfg, profile, nn, 8, 7)
            diff = [i for i in range(nn) if (ref.get(i) or (0, 0, 0))[0] != (other.get(i) or (1, 1, 1))[0] or (ref.get(i) or (0, 0, 0))[2] != (other.get(i) or (1, 1, 1))[2]]
            if diff:
                ok = False
                notes.append('%s vs %s canonical digest differs at %s' % (configs[0], cfg, diff[:5]))
        print('%s %s: %d runs x (1,4,16 workers, repeated%s) %s %s' % (profile, configs[0], nn, ''.join(', ' + c for c in configs[1:]), 'IDENTICAL' if ok else 'DIFFERENT', notes), flush=True)
        summary[profile] = dict(ok=ok, runs=nn, notes=notes)
        bad += 0 if ok else 1
    out = os.path.join(VERIF, 'selftest', 'results', 'determinism.%s.json' % configs[0])
    os.makedirs(os.path.dirname(out), exist_ok=True)
    json.dump(dict(n=n, configs=configs, profiles=summary), open(out, 'w'), indent=1)
    return 1 if bad else 0


if __name__ == '__main__':
    sys.exit(main())
