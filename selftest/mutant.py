#!/usr/bin/env python3
"""Sensitivity / false-alarm self-test: run registered checks against a scratch copy of the library with a patch applied.

  selftest/mutant.py --patch mutants/C03-removeEdge-keeps-label.patch --target C03 [--also C01,C06] [--scale 0.3] [--keep]

The scratch copy, its build output and all results live under /dev/shm/bgmut.<pid> (never /repo, never /verif/build,
never /verif/evidence) and are removed afterwards. Prints one line per check:  <check> exit=<rc> classes=[...]
Exit status: 0 if every --target check reported a violation (exit 1) and every --also check stayed green (exit 0).
"""
import argparse
import json
import os
import re
import shutil
import subprocess
import sys

VERIF = os.path.dirname(os.path.dirname(os.path.abspath(__file__)))


def main():
    ap = argparse.ArgumentParser()
    ap.add_argument('--patch', required=True)
    ap.add_argument('--repo', default='/repo')
    ap.add_argument('--target', default='')
    ap.add_argument('--also', default='')
    ap.add_argument('--scale', type=float, default=1.0)
    ap.add_argument('--also-scale', type=float, default=0.25)
    ap.add_argument('--also-configs', default='g2')
    ap.add_argument('--target-configs', default=None)
    ap.add_argument('--keep', action='store_true')
    ap.add_argument('--json', default=None)
    a = ap.parse_args()
    S = '/dev/shm/bgmut.%d' % os.getpid()
    shutil.rmtree(S, ignore_errors=True)
    os.makedirs(S)
    shutil.copytree(os.path.join(a.repo, 'include'), os.path.join(S, 'include'))
    patch = os.path.abspath(a.patch)
    p = subprocess.run(['git', 'apply', '-p1', patch], cwd=S, stdout=subprocess.PIPE, stderr=subprocess.STDOUT, text=True)
    if p.returncode != 0:
        p = subprocess.run(['patch', '-p1', '-i', patch], cwd=S, stdout=subprocess.PIPE, stderr=subprocess.STDOUT, text=True)
        if p.returncode != 0:
            print('mutant: patch does not apply:\n' + p.stdout)
            shutil.rmtree(S, ignore_errors=True)
            return 3
    env = dict(os.environ)
    env['BGSIM_BUILD'] = os.path.join(S, 'build')
    env['BGSIM_OUT'] = os.path.join(S, 'out')
    env['BASEGRAPH_INCLUDE'] = os.path.join(S, 'include')
    ok = True
    results = []

    def run(chk, scale, configs, expect):
        cmd = [os.path.join(VERIF, 'bin', 'check'), chk, '--tier', 'quick', '--scale', str(scale), '--max-report', '4']
        if configs:
            cmd += ['--configs', configs]
        r = subprocess.run(cmd, env=env, stdout=subprocess.PIPE, stderr=subprocess.PIPE, text=True)
        classes = re.findall(r'^  class: (.*)$', r.stdout, re.M)
        build_fail = 'build failed' in r.stderr
        line = '%s exit=%d expected=%d classes=%s%s' % (chk, r.returncode, expect, classes, ' BUILD-FAILED' if build_fail else '')
        print(line, flush=True)
        if r.returncode not in (0, 1):
            print(r.stdout[-1500:])
            print(r.stderr[-1500:])
        results.append(dict(check=chk, exit=r.returncode, expected=expect, classes=classes, build_failed=build_fail))
        return r.returncode == expect

    for chk in [c for c in a.target.split(',') if c]:
        ok = run(chk, a.scale, a.target_configs, 1) and ok
    for chk in [c for c in a.also.split(',') if c]:
        ok = run(chk, a.also_scale, a.also_configs, 0) and ok
    if a.json:
        with open(a.json, 'w') as f:
            json.dump(dict(patch=a.patch, results=results, ok=ok), f, indent=1)
    if not a.keep:
        shutil.rmtree(S, ignore_errors=True)
    print('mutant: %s -> %s' % (os.path.basename(a.patch), 'AS EXPECTED' if ok else 'NOT AS EXPECTED'))
    return 0 if ok else 1


if __name__ == '__main__':
    sys.exit(main())
