#!/bin/bash
# Confirms a seeded change delivered by a sub-agent, in the agent's scratch worktree:
#   the patch applies on a clean tree, the repository's unit tests still pass with it, the demonstration fails with it
#   and passes without it.   usage: verify_seeded.sh <worktree> <A|B> [extra compiler flags for the demo]
set -u
WT=$1; X=$2; shift 2
D=$WT/seeded/$X
cd $WT || exit 2
git checkout -q -- include
git apply --check $D/patch.diff || { echo "RESULT patch does not apply"; exit 1; }
FLAGS="-std=c++17 -O1 -I $WT/include -pthread $*"
CXX=${CXX:-g++}
$CXX $FLAGS $D/demo.cpp -o /tmp/demo.clean.$$ 2>/tmp/demo.err.$$ || { echo "RESULT demo does not compile on clean tree"; cat /tmp/demo.err.$$ | head; exit 1; }
( cd $D && timeout 120 /tmp/demo.clean.$$ >/tmp/demo.out.$$ 2>&1 ); CLEAN=$?
git apply $D/patch.diff
cmake --build $WT/_build >/tmp/build.$$ 2>&1 || { echo "RESULT tests do not build with change"; tail -5 /tmp/build.$$; git checkout -q -- include; exit 1; }
ctest --test-dir $WT/_build -j8 >/tmp/ctest.$$ 2>&1; TESTS=$?
$CXX $FLAGS $D/demo.cpp -o /tmp/demo.mut.$$ 2>/tmp/demo.err.$$; COMPILED=$?
( cd $D && timeout 120 /tmp/demo.mut.$$ >/tmp/demo.out2.$$ 2>&1 ); MUT=$?
git checkout -q -- include
echo "RESULT clean_demo_exit=$CLEAN tests_with_change_exit=$TESTS ($(grep -o '[0-9]*% tests passed.*' /tmp/ctest.$$)) demo_compiles_with_change=$COMPILED demo_with_change_exit=$MUT"
rm -f /tmp/demo.*.$$ /tmp/build.$$ /tmp/ctest.$$
[ $CLEAN -eq 0 ] && [ $TESTS -eq 0 ] && [ $MUT -ne 0 ]
