#!/bin/bash
# Runs the thorough tier of every claimed check once (results are informative: committed evidence comes from runs in /verif itself).
cd "$(dirname "$0")/.."
make -j16 all >/dev/null 2>&1
for p in C04 C19 C16 C01 C02 C03 C05 C06 C07 C13 C14 C15 C17 C18; do
  echo "=== $p $(date +%H:%M:%S)"
  bin/check $p --tier thorough 2>&1 | grep -E "VIOLATION|KNOWN|class:|minimised|^  [a-zA-Z]|check: .*(thorough:|done|other|did not)" | cut -c1-300
done
