# Rebuilds every simulator configuration from $(BASEGRAPH_INCLUDE) (default: /repo's working tree) with header deps.
BASEGRAPH_INCLUDE ?= /repo/include
B ?= $(CURDIR)/build
STD ?= -std=c++17
COMMON := -I$(BASEGRAPH_INCLUDE) -Isim -pthread -MMD -MP -w
WRAP := -static-libstdc++ -Wl,--wrap=fopen64,--wrap=read,--wrap=write,--wrap=writev,--wrap=lseek64 -pthread

CONFIGS := g2 g0 gd ca c2 g14 ts
QUICK_CONFIGS := g2 gd ca ts

CXX_g2 := g++
FLAGS_g2 := -O2 $(STD)
CXX_g0 := g++
FLAGS_g0 := -O0 $(STD)
CXX_gd := g++
FLAGS_gd := -O1 $(STD) -D_GLIBCXX_DEBUG -D_GLIBCXX_DEBUG_PEDANTIC -fsanitize=address,undefined -fno-sanitize-recover=all -fno-omit-frame-pointer
CXX_ca := clang++
FLAGS_ca := -O1 $(STD) -D_GLIBCXX_ASSERTIONS -fsanitize=address,undefined,float-cast-overflow -fno-sanitize-recover=all -fno-omit-frame-pointer
CXX_c2 := clang++
FLAGS_c2 := -O2 $(STD)
CXX_g14 := g++
FLAGS_g14 := -O2 -std=c++14
CXX_ts := clang++
FLAGS_ts := -O1 $(STD) -fsanitize=thread -fno-omit-frame-pointer
# the scheduler and the wrap layer are invisible to the sanitizers on purpose (see sim/racesim/sched.h)
PLAINFLAGS_ts := -O1 $(STD)

# name|adapter for every Runner instantiation
SP := _SP_
INSTS := \
 run_LD_none|gs::AdLD<BaseGraph::NoLabel> run_LD_int|gs::AdLD<int> run_LD_unsigned|gs::AdLD<unsigned> run_LD_double|gs::AdLD<double> \
 run_LD_char|gs::AdLD<char> run_LD_string|gs::AdLD<std::string> run_LD_struct|gs::AdLD<gs::SLabel> \
 run_LD_i8|gs::AdLD<signed$(SP)char> run_LD_u8|gs::AdLD<unsigned$(SP)char> run_LD_i16|gs::AdLD<short> run_LD_u16|gs::AdLD<unsigned$(SP)short> \
 run_LD_i64|gs::AdLD<long$(SP)long> run_LD_u64|gs::AdLD<unsigned$(SP)long$(SP)long> run_LD_float|gs::AdLD<float> run_LD_empty|gs::AdLD<gs::EmptyTag> \
 run_LU_none|gs::AdLU<BaseGraph::NoLabel> run_LU_int|gs::AdLU<int> run_LU_unsigned|gs::AdLU<unsigned> run_LU_double|gs::AdLU<double> \
 run_LU_char|gs::AdLU<char> run_LU_string|gs::AdLU<std::string> run_LU_struct|gs::AdLU<gs::SLabel> \
 run_LU_i8|gs::AdLU<signed$(SP)char> run_LU_u8|gs::AdLU<unsigned$(SP)char> run_LU_i16|gs::AdLU<short> run_LU_u16|gs::AdLU<unsigned$(SP)short> \
 run_LU_i64|gs::AdLU<long$(SP)long> run_LU_u64|gs::AdLU<unsigned$(SP)long$(SP)long> run_LU_float|gs::AdLU<float> run_LU_empty|gs::AdLU<gs::EmptyTag> \
 run_DM|gs::AdDM run_UM|gs::AdUM run_DW|gs::AdDW run_UW|gs::AdUW
INSTNAMES := $(foreach i,$(INSTS),$(firstword $(subst |, ,$(i))))
adapter = $(subst _SP_, ,$(word 2,$(subst |, ,$(filter $(1)|%,$(INSTS)))))

.PHONY: all quick clean canary $(addprefix cfg-,$(CONFIGS))
all: $(addprefix cfg-,$(CONFIGS)) canary
quick: $(addprefix cfg-,$(QUICK_CONFIGS))

define CONFIG_RULES
cfg-$(1): $(B)/bgsim.$(1)
$(B)/$(1)/%.inst.o: sim/main/inst.cpp
	@mkdir -p $$(dir $$@)
	$$(CXX_$(1)) $$(FLAGS_$(1)) $(COMMON) '-DGS_NAME=$$*' '-DGS_ADAPTER=$$(call adapter,$$*)' -c $$< -o $$@
$(B)/$(1)/main.o: sim/main/main.cpp
	@mkdir -p $$(dir $$@)
	$$(CXX_$(1)) $$(FLAGS_$(1)) $(COMMON) -c $$< -o $$@
$(B)/$(1)/step.o: sim/main/step.cpp
	@mkdir -p $$(dir $$@)
	$$(CXX_$(1)) $$(FLAGS_$(1)) $(COMMON) -c $$< -o $$@
$(B)/$(1)/wrap.o: sim/iosim/wrap.cpp
	@mkdir -p $$(dir $$@)
	$$(CXX_$(1)) $$(if $$(PLAINFLAGS_$(1)),$$(PLAINFLAGS_$(1)),$$(FLAGS_$(1))) $(COMMON) -c $$< -o $$@
$(B)/$(1)/sched.o: sim/racesim/sched.cpp
	@mkdir -p $$(dir $$@)
	$$(CXX_$(1)) $$(if $$(PLAINFLAGS_$(1)),$$(PLAINFLAGS_$(1)),-O1 $(STD)) $(COMMON) -c $$< -o $$@
$(B)/bgsim.$(1): $(B)/$(1)/main.o $(B)/$(1)/step.o $(B)/$(1)/wrap.o $(B)/$(1)/sched.o $(foreach n,$(INSTNAMES),$(B)/$(1)/$(n).inst.o)
	$$(CXX_$(1)) $$(FLAGS_$(1)) $$^ $(WRAP) -o $$@
endef
$(foreach c,$(CONFIGS),$(eval $(call CONFIG_RULES,$(c))))

canary: $(B)/canary.ts
$(B)/canary.ts: sim/racesim/canary.cpp sim/racesim/sched.cpp sim/racesim/sched.h
	@mkdir -p $(B)/ts
	clang++ -O1 $(STD) -c sim/racesim/sched.cpp -o $(B)/ts/canary_sched.o
	clang++ -O1 $(STD) -fsanitize=thread -pthread sim/racesim/canary.cpp $(B)/ts/canary_sched.o -o $@

clean:
	rm -rf $(B)

-include $(wildcard $(B)/*/*.d)
