all:
	@echo "nothing to build yet"
