"""Driver library for bin/check (python3 stdlib only)."""
import argparse
import collections
import copy
import glob
import json
import os
import queue
import re
import shutil
import subprocess
import sys
import threading
import time

VERIF = os.path.dirname(os.path.dirname(os.path.abspath(__file__)))
# BGSIM_BUILD / BGSIM_OUT / BASEGRAPH_INCLUDE redirect build output, results and the library headers: used by the
# self-tests (mutants, seeded changes in scratch copies) so that they never touch build/, evidence/ or /repo.
BUILD = os.environ.get('BGSIM_BUILD') or os.path.join(VERIF, 'build')
OUT = os.environ.get('BGSIM_OUT') or VERIF
REPLAYS = os.path.join(OUT, 'replays')
EVIDENCE = os.path.join(OUT, 'evidence')
WORK = os.path.join(OUT, 'work')
KNOWN = os.path.join(VERIF, 'known_findings.json')
NCPU = os.cpu_count() or 8

SANITIZED = {'gd', 'ca', 'ts'}

REAL = ['every BaseGraph header as found in the working tree', "libstdc++ containers and fstreams (statically linked)",
        'the kernel tmpfs for file contents']
STUB_GRAPH = ['reference model (std::map of pairs) as the oracle']
STUB_IO = STUB_GRAPH + ['SimDisk: which bytes survive a writer crash (cut offsets), errno of opens, EIO/short reads (link-time wrap of fopen64/read/write/writev)']

# runs per (tier, config).  'vg' = valgrind memcheck over the g2 binary, 'g2w' = g2 with the wild malformed-text alphabet
SPECS = {
    'C01': dict(level='exploration', q=[('g2', 120000), ('gd', 6000)], t=[('g2', 1500000), ('gd', 150000), ('ca', 150000)], stub=STUB_IO),
    'C02': dict(level='exploration', q=[('g2', 120000), ('gd', 6000)], t=[('g2', 1500000), ('gd', 150000), ('ca', 150000)], stub=STUB_IO),
    'C03': dict(level='exploration', q=[('g2', 120000), ('gd', 6000)], t=[('g2', 1500000), ('gd', 150000), ('ca', 150000)], stub=STUB_IO),
    'C04': dict(level='exploration', q=[('g2', 400000), ('gd', 12000)], t=[('g2', 2000000), ('gd', 200000), ('ca', 200000)], stub=STUB_GRAPH),
    'C05': dict(level='exploration', q=[('g2', 110000), ('gd', 6000)], t=[('g2', 2000000), ('gd', 200000), ('ca', 200000)], stub=STUB_GRAPH),
    'C06': dict(level='exploration', q=[('g2', 100000), ('gd', 5000)], t=[('g2', 1500000), ('gd', 120000), ('ca', 120000)], stub=STUB_IO),
    'C07': dict(level='exploration', q=[('gd', 8000), ('ca', 10000), ('g2', 60000)], t=[('gd', 200000), ('ca', 250000), ('g2', 1200000)], stub=STUB_GRAPH),
    'C13': dict(level='exploration', q=[('g2', 80000), ('gd', 3000), ('ca', 3000)], t=[('g2', 1200000), ('gd', 80000), ('ca', 80000)], stub=STUB_IO),
    'C14': dict(level='exploration', q=[('g2', 80000), ('gd', 3000), ('ca', 3000)], t=[('g2', 1200000), ('gd', 80000), ('ca', 80000)], stub=STUB_IO),
    'C15': dict(level='fault_enumeration', q=[('g2', 16000), ('g2w', 8000), ('gd', 1400), ('ca', 1400)],
                t=[('g2', 300000), ('g2w', 150000), ('gd', 30000), ('ca', 30000), ('vg', 400)], stub=STUB_IO),
    'C16': dict(level='exploration', q=[('g2', 120000), ('gd', 6000)], t=[('g2', 1500000), ('gd', 150000), ('ca', 150000)], stub=STUB_GRAPH),
    'C17': dict(level='exploration', q=[('gd', 6000), ('ca', 6000), ('g2', 6000)],
                t=[('gd', 150000), ('ca', 150000), ('g2', 150000), ('g0', 150000), ('c2', 150000), ('g14', 150000), ('vg', 300)], stub=STUB_IO),
    'C18': dict(level='exploration', q=[('ts', 50000)], t=[('ts', 1500000)],
                stub=STUB_GRAPH + ['the order in which reader threads run (seeded serialising scheduler, literal pick sequence in the plan)']),
    'C19': dict(level='exploration', q=[('g2', 150000), ('gd', 4000)], t=[('g2', 6000000), ('gd', 100000), ('ca', 100000)],
                stub=['logical clock = number of getOutNeighbours calls seen by the instrumented graph type Counting<G>; step budget = the property bound']),
}

RULES = {
    'graph': 'one evaluation = one simulated run: a seeded swarm configuration (class, label type, initial size, operation mix, fault rates) and an explicit '
             'operation list executed against the real object and the reference model with the full observer sweep after every step. '
             'distinct_nontrivial = number of distinct canonical final model states (hash of class, label type, size, edge multiset with labels) among runs that '
             'executed at least one effective mutation and in which at least one fault operation fired (rejected call, duplicate delivery, snapshot, persist/reload, replica).',
    'C15': 'one evaluation = one (file, fault) load: every cut offset 0..len of each sampled binary file (the crash-point space of a file is enumerated completely; files are sampled), '
           'every cut of sampled text files, read-EIO at sampled offsets, arbitrary binary byte strings and malformed text files. '
           'distinct_nontrivial = number of distinct (file digest, cut offset) pairs with the cut strictly inside a record.',
    'C18': 'one evaluation = one simulated run: a shared graph built by a seeded history, 2-4 reader tasks on real threads each with a seeded list of const operations, '
           'serialised by the seeded scheduler. distinct_nontrivial = number of distinct schedule hashes (sequence of scheduled task ids) among runs with at least one context switch.',
    'C19': 'one evaluation = one simulated run of 1-6 searches, each on a seeded member of a graph family from a seeded source under the step budget of the property. '
           'distinct_nontrivial = number of distinct (family, parameters, source, algorithm, result) digests among runs that made at least one neighbourhood scan.',
}


def log(*a):
    print(*a, file=sys.stderr, flush=True)


def binpath(cfg):
    real = {'g2w': 'g2', 'vg': 'g2'}.get(cfg, cfg)
    return os.path.join(BUILD, 'bgsim.' + real)


def build(configs):
    real = sorted({{'g2w': 'g2', 'vg': 'g2'}.get(c, c) for c in configs})
    cmd = ['make', '-C', VERIF, '-j%d' % NCPU, 'B=' + BUILD] + ['cfg-' + c for c in real]
    if os.environ.get('BASEGRAPH_INCLUDE'):
        cmd.append('BASEGRAPH_INCLUDE=' + os.environ['BASEGRAPH_INCLUDE'])
    if 'ts' in real:
        cmd.append('canary')
    t0 = time.time()
    # two checks started at the same time must not run two makes on the same build directory
    os.makedirs(BUILD, exist_ok=True)
    import fcntl
    with open(os.path.join(BUILD, '.lock'), 'w') as lock:
        fcntl.flock(lock, fcntl.LOCK_EX)
        p = subprocess.run(cmd, stdout=subprocess.PIPE, stderr=subprocess.STDOUT, text=True)
    if p.returncode != 0:
        sys.stdout.write(p.stdout[-6000:])
        log('check: build failed')
        return False
    log('check: build ok (%.1fs) configs=%s' % (time.time() - t0, ','.join(real)))
    return True


# ----------------------------------------------------------------------------------------------- workers
class Batch:
    """One configuration: W long-lived workers over run indices [0,n)."""

    def __init__(self, cfg, profile, tier, base, n, deadline_s):
        self.cfg, self.profile, self.tier, self.base, self.n = cfg, profile, tier, base, n
        self.deadline_s = deadline_s
        self.results = {}      # idx -> result dict
        self.crashes = []      # dicts
        self.summaries = []
        self.lock = threading.Lock()
        self.t0 = time.time()
        self.wall = 0.0
        self.incomplete = False

    def workers(self):
        if self.cfg == 'vg':
            return min(NCPU, 16)
        if self.cfg in SANITIZED:
            return min(NCPU, 8 if self.cfg != 'ts' else 12)
        return min(NCPU, 16)

    def cmd(self, start, stride):
        c = [binpath(self.cfg), '--profile', self.profile, '--tier', self.tier, '--base', str(self.base),
             '--range', '%d:%d:%d' % (start, self.n, stride), '--deadline-ms', str(int(self.deadline_s * 1000))]
        if self.cfg == 'g2w':
            c.append('--wild')
        if self.cfg == 'vg':
            c = ['valgrind', '-q', '--error-exitcode=77', '--errors-for-leak-kinds=none', '--leak-check=no'] + c + ['--no-rlimit', '--watchdog-s', '1500']
        return c

    def worker(self, w, W):
        start = w
        restarts = 0
        while start < self.n:
            p = subprocess.Popen(self.cmd(start, W), stdout=subprocess.PIPE, stderr=subprocess.PIPE, text=True, errors='replace')
            errbuf = []
            et = threading.Thread(target=lambda: errbuf.append(p.stderr.read()), daemon=True)
            et.start()
            last = None
            nxt = None
            for line in p.stdout:
                line = line.strip()
                if not line or line[0] != '{':
                    continue
                try:
                    j = json.loads(line)
                except ValueError:
                    continue
                if 'summary' in j:
                    with self.lock:
                        self.summaries.append(j)
                    nxt = j.get('next')
                    continue
                last = j['i']
                with self.lock:
                    self.results[j['i']] = j
            rc = p.wait()
            et.join(timeout=5)
            if rc == 0:
                return
            if rc == 3 and nxt is not None:  # poisoned after an accepted invalid call: restart behind it
                start = nxt
                continue
            crashed = start if last is None else last + W
            with self.lock:
                self.crashes.append(dict(cfg=self.cfg, idx=crashed, rc=rc, stderr=(errbuf[0] if errbuf else '')[-8000:]))
            restarts += 1
            if restarts > 10:
                self.incomplete = True
                return
            start = crashed + W

    def run(self):
        W = self.workers()
        ts = [threading.Thread(target=self.worker, args=(w, W)) for w in range(W)]
        for t in ts:
            t.start()
        for t in ts:
            t.join()
        self.wall = time.time() - self.t0
        for d in glob.glob('/dev/shm/bgsim.*'):
            try:
                pid = int(d.rsplit('.', 1)[1])
                os.kill(pid, 0)
            except (ValueError, ProcessLookupError):
                shutil.rmtree(d, ignore_errors=True)
            except PermissionError:
                pass


def gen_plan(cfg, profile, tier, base, idx):
    c = [binpath(cfg), '--profile', profile, '--tier', tier, '--base', str(base), '--gen', str(idx)]
    if cfg == 'g2w':
        c.append('--wild')
    out = subprocess.run(c, stdout=subprocess.PIPE, text=True).stdout
    return json.loads(out)


SLUG = re.compile(r'[^A-Za-z0-9_:<>+\-]+')


def crash_detail(rc, stderr):
    """Short slug describing an abnormal end, from the sanitizer / debug-mode report."""
    m = re.search(r'ERROR: AddressSanitizer: ([A-Za-z\-]+)', stderr)
    if m:
        return 'asan:' + m.group(1)
    m = re.search(r'runtime error: ([^\n]+)', stderr)
    if m:
        return 'ubsan:' + SLUG.sub('_', re.sub(r'0x[0-9a-f]+|\d+', 'N', m.group(1)))[:60]
    if 'ThreadSanitizer: data race' in stderr:
        fn = 'unknown'
        for fm in re.finditer(r'^\s+#\d+ (?:0x[0-9a-f]+ in )?(.+)$', stderr, re.M):
            f = fm.group(1)
            m2 = re.search(r'BaseGraph::(?:algorithms::|io::)?([A-Za-z_0-9]+(?:<[^>]*>)?::)?([A-Za-z_0-9=~]+)', f)
            if m2 and 'gs::' not in f.split('BaseGraph::')[0]:
                fn = ((m2.group(1) or '') + m2.group(2))
                fn = re.sub(r'<[^>]*>', '', fn)
                break
        return 'tsan_data_race:' + SLUG.sub('_', fn)[:80]
    if 'ThreadSanitizer' in stderr:
        m = re.search(r'ThreadSanitizer: ([^\n(]+)', stderr)
        return 'tsan:' + SLUG.sub('_', m.group(1).strip())[:50]
    m = re.search(r'Error: ([^\n]+)', stderr)
    if m and rc == 78:
        return 'glibcxx_debug:' + SLUG.sub('_', m.group(1))[:70]
    if 'Assertion' in stderr and rc == 78:
        m = re.search(r"Assertion '([^']+)'", stderr)
        return 'glibcxx_assert:' + SLUG.sub('_', m.group(1) if m else 'failed')[:70]
    m = re.search(r'==\d+== (Invalid [a-z]+ of size \d+|Conditional jump or move depends on uninitialised|Use of uninitialised value)', stderr)
    if m:
        return 'valgrind:' + SLUG.sub('_', m.group(1))[:50]
    if 'malloc' in stderr or 'free()' in stderr or 'corrupted' in stderr:
        return 'heap_corruption'
    if 'allocation-size-too-big' in stderr or 'exceeds maximum supported size' in stderr:
        return 'asan:allocation-size-too-big'
    if 'hard rss limit' in stderr.lower():
        return 'asan:rss-limit-exceeded'
    if rc in (-14, -27, -999):
        return 'hang:watchdog'
    if rc < 0:
        return 'signal%d' % (-rc)
    return 'exit%d' % rc


def last_traced_op(stderr):
    k, cell = 'init', ''
    for line in stderr.splitlines():
        if line.startswith('step '):
            m = re.search(r'"k":"([a-z]+)"', line)
            if m:
                k, cell = m.group(1), ''
        elif line.startswith('  reject '):
            cell = line.split()[1].split('|')[0]
    return k, cell


def run_plan(cfg, plan, trace=False, timeout=600):
    """Fresh process, one plan. Returns outcome dict: cls ('ok' | violation class | crash class), digest, rc, stderr, result."""
    os.makedirs(WORK, exist_ok=True)
    path = os.path.join(WORK, 'plan.%d.%d.json' % (os.getpid(), threading.get_ident()))
    with open(path, 'w') as f:
        json.dump(plan, f)
    c = [binpath(cfg), '--plan', path, '--tier', plan.get('tier', 'quick')]
    if trace:
        c.append('--trace')
    if cfg == 'g2w':
        c.append('--wild')
    if cfg == 'vg':
        c = ['valgrind', '-q', '--error-exitcode=77', '--leak-check=no'] + c + ['--no-rlimit', '--watchdog-s', '1500']
    try:
        p = subprocess.run(c, stdout=subprocess.PIPE, stderr=subprocess.PIPE, text=True, errors='replace', timeout=timeout)
        rc, out, err = p.returncode, p.stdout, p.stderr
    except subprocess.TimeoutExpired:
        rc, out, err = -999, '', 'timeout'
    finally:
        try:
            os.unlink(path)
        except OSError:
            pass
    res = None
    for line in out.splitlines():
        if line.startswith('{'):
            try:
                j = json.loads(line)
                if 'summary' not in j:
                    res = j
            except ValueError:
                pass
    return dict(rc=rc, stderr=err, result=res)


def outcome_class(profile_prop, plan, o, cfg):
    """(property, class, digest) of a run outcome; ('', 'ok', d) when nothing failed."""
    res, rc = o['result'], o['rc']
    if rc in (0, 3) and res is not None:
        if res['v']:
            return res['v']['prop'], res['v']['cls'], res['d']
        return '', 'ok', res['d']
    # abnormal end
    o2 = o
    if 'step ' not in o['stderr']:
        o2 = run_plan(cfg, plan, trace=True)
    k, cell = last_traced_op(o2['stderr'])
    detail = crash_detail(o2['rc'], o2['stderr'])
    prop = profile_prop
    if k == 'reject':
        prop = 'C07'
    elif detail.startswith('tsan'):
        prop = 'C18'
    elif k in ('copy', 'assign', 'replica') and detail.startswith('hang') and profile_prop not in ('C17', 'C18'):
        prop = 'C06'  # the equality / copy oracles did not return
    elif profile_prop in ('C01', 'C02', 'C03', 'C04', 'C05', 'C06', 'C16', 'C13', 'C14') and k in ('alg',):
        prop = 'C17'
    elif profile_prop not in ('C07', 'C15', 'C17', 'C18'):
        # memory errors on valid calls belong to C17 unless the profile's own property is about them
        if detail.startswith(('asan', 'ubsan', 'glibcxx', 'valgrind', 'heap', 'signal')):
            prop = 'C17' if k not in ('loadraw', 'cutall', 'persist', 'openfail') else profile_prop
    cls = '%s/crash:%s/%s%s/%s:%s' % (prop, detail, k, (':' + cell) if cell else '', plan.get('cls', '?'), plan.get('lab', '?'))
    return prop, cls, 'crash'


# ----------------------------------------------------------------------------------------------- minimisation
def class_key(cls):
    """Violation class without the class<label> suffix: property/oracle/opkind."""
    parts = cls.split('/')
    if parts[0] == 'C07' and len(parts) >= 3:
        # an unchecked index shows up as "returned normally" or as a memory fault depending on the build: one class
        if parts[1].startswith('accepted:'):
            return 'C07/not_rejected/' + re.sub(r'\(flag\)$', '', parts[1][len('accepted:'):])
        if parts[1].startswith('crash:') and parts[2].startswith('reject:'):
            return 'C07/not_rejected/' + parts[2][len('reject:'):]
    return '/'.join(parts[:3])


def minimise(plan, cfg, profile_prop, target_cls, budget=400, wall=150.0):
    """Greedy ddmin over the op list (and race tasks), then argument simplification; a candidate is accepted only if it
    fails with the same violation class (property + oracle + triggering op kind)."""
    want = class_key(target_cls)
    calls = [0]

    t_min = time.time()

    def test(cand):
        if calls[0] >= budget or time.time() - t_min > wall:
            return False
        calls[0] += 1
        o = run_plan(cfg, cand, timeout=100)
        _, cls, _ = outcome_class(profile_prop, cand, o, cfg)
        return class_key(cls) == want

    cur = copy.deepcopy(plan)

    def ddmin_list(get, put):
        nonlocal cur
        n = 2
        while True:
            ops = get(cur)
            if len(ops) <= 0:
                break
            chunk = max(1, len(ops) // n)
            removed = False
            i = 0
            while i < len(ops):
                cand = copy.deepcopy(cur)
                put(cand, ops[:i] + ops[i + chunk:])
                if len(get(cand)) < len(ops) and test(cand):
                    cur = cand
                    ops = get(cur)
                    removed = True
                else:
                    i += chunk
            if not removed:
                if chunk == 1:
                    break
                n = min(len(ops), n * 2)
            else:
                n = max(2, n - 1)
            if calls[0] >= budget:
                break

    ddmin_list(lambda p: p['ops'], lambda p, v: p.__setitem__('ops', v))
    if cur.get('tasks'):
        # drop whole tasks, then ops inside tasks, then shorten the schedule
        ddmin_list(lambda p: p['tasks'], lambda p, v: p.__setitem__('tasks', v))
        for t in range(len(cur['tasks'])):
            ddmin_list(lambda p, t=t: p['tasks'][t] if t < len(p['tasks']) else [],
                       lambda p, v, t=t: p['tasks'].__setitem__(t, v))
        ddmin_list(lambda p: p.get('sched', []), lambda p, v: p.__setitem__('sched', v))
    # argument simplification
    def try_set(mut):
        nonlocal cur
        cand = copy.deepcopy(cur)
        mut(cand)
        if cand != cur and test(cand):
            cur = cand
            return True
        return False

    for v in (0, 1, 2, 3):
        if cur.get('n0', 0) > v and try_set(lambda p, v=v: p.__setitem__('n0', v)):
            break
    oplists = [('ops', None)] + [('tasks', t) for t in range(len(cur.get('tasks', [])))]
    for name, t in oplists:
        ops = cur[name] if t is None else cur[name][t]
        for i in range(len(ops)):
            for fld in ('y', 'x', 'a', 'b'):
                val = (cur[name] if t is None else cur[name][t])[i].get(fld, 0)
                if not val:
                    continue
                for nv in (0, 1, val // 2):
                    if nv == val:
                        continue

                    def mut(p, nv=nv, i=i, fld=fld, name=name, t=t):
                        o = (p[name] if t is None else p[name][t])[i]
                        if nv:
                            o[fld] = nv
                        else:
                            o.pop(fld, None)
                    if try_set(mut):
                        break
            if calls[0] >= budget:
                break
    return cur, calls[0]


# ----------------------------------------------------------------------------------------------- known findings
def load_known():
    if not os.path.exists(KNOWN):
        return []
    with open(KNOWN) as f:
        return json.load(f).get('findings', [])


def known_match(known, prop, cls):
    for k in known:
        if k.get('status') != 'known' or k.get('property') != prop:
            continue
        if re.search(k['match'], cls):
            return k
    return None


# ----------------------------------------------------------------------------------------------- canary (C18)
def tsan_canary():
    """A deliberately racy fixture must be reported by TSan under the serialising scheduler, a pure one must not."""
    b = os.path.join(BUILD, 'canary.ts')
    if not os.path.exists(b):
        return False, 'canary binary missing'
    racy = subprocess.run([b, 'racy'], stdout=subprocess.PIPE, stderr=subprocess.PIPE, text=True)
    pure = subprocess.run([b, 'pure'], stdout=subprocess.PIPE, stderr=subprocess.PIPE, text=True)
    ok = racy.returncode == 66 and 'data race' in racy.stderr and pure.returncode == 0
    return ok, 'racy rc=%d pure rc=%d' % (racy.returncode, pure.returncode)


# ----------------------------------------------------------------------------------------------- main
def replay(prop, path):
    with open(path) as f:
        plan = json.load(f)
    exp = plan.get('expect', {})
    cfg = exp.get('config', 'g2')
    if not build([cfg]):
        return 2
    o = run_plan(cfg, plan, trace=True)
    sys.stderr.write(o['stderr'][-6000:])
    p, cls, d = outcome_class(plan.get('profile', prop), plan, o, cfg)
    print('replay: config=%s outcome=%s digest=%s' % (cfg, cls, d))
    if exp and class_key(cls) == class_key(exp.get('class', '')) and (d == exp.get('digest') or d == 'crash' or not exp.get('digest')):
        print('VIOLATION property=%s replay=%s' % (exp.get('property', prop), path))
        return 1
    if cls == 'ok':
        print('replay: the recorded violation did not recur (expected %s)' % exp.get('class'))
        return 2 if exp else 0
    print('replay: different outcome than recorded (%s)' % exp.get('class'))
    return 2


def main(argv):
    ap = argparse.ArgumentParser()
    ap.add_argument('prop')
    ap.add_argument('--tier', default=os.environ.get('VERIF_TIER', 'quick'))
    ap.add_argument('--seed', type=int, default=None)
    ap.add_argument('--replay')
    ap.add_argument('--scale', type=float, default=1.0, help='multiply the number of runs')
    ap.add_argument('--configs', default=None)
    ap.add_argument('--max-report', type=int, default=6)
    a = ap.parse_args(argv)
    sym = '/usr/bin/llvm-symbolizer-14'
    if os.path.exists(sym):
        os.environ.setdefault('ASAN_SYMBOLIZER_PATH', sym)
        os.environ.setdefault('TSAN_OPTIONS', 'external_symbolizer_path=' + sym)
    prop = a.prop
    if prop not in SPECS:
        log('unknown or unclaimed property', prop)
        return 2
    if a.replay:
        return replay(prop, a.replay)
    tier = a.tier if a.tier in ('quick', 'thorough') else 'quick'
    seed = a.seed if a.seed is not None else int(os.environ.get('VERIF_SEED', '20260926' if tier == 'quick' else '20260927'))
    spec = SPECS[prop]
    plan_cfgs = spec['q'] if tier == 'quick' else spec['t']
    if a.configs:
        keep = a.configs.split(',')
        plan_cfgs = [c for c in plan_cfgs if c[0] in keep]
    t_start = time.time()
    if not build([c for c, _ in plan_cfgs]):
        return 2
    extra = {}
    if prop == 'C18':
        ok, msg = tsan_canary()
        extra['tsan_canary_ok'] = ok
        log('check: tsan canary: %s (%s)' % ('ok' if ok else 'FAILED', msg))
        if not ok:
            log('check: ThreadSanitizer is not functional here; no verdict')
            return 2
    deadline = 55.0 if tier == 'quick' else 300.0
    batches = []
    for cfg, n in plan_cfgs:
        n = max(1, int(n * a.scale))
        b = Batch(cfg, prop, tier, seed, n, deadline)
        log('check: %s %s tier=%s config=%s runs=%d' % (prop, 'profile', tier, cfg, n))
        b.run()
        log('check:   done %d runs in %.1fs, %d abnormal ends' % (len(b.results), b.wall, len(b.crashes)))
        batches.append(b)

    known = load_known()
    # ---- collect violations: (cfg, idx, prop, cls, digest)
    found = []  # dicts
    other_props = collections.Counter()
    for b in batches:
        for idx, r in b.results.items():
            if r['v']:
                found.append(dict(cfg=b.cfg, idx=idx, prop=r['v']['prop'], cls=r['v']['cls'], digest=r['d'], msg=r['v']['msg'], crash=False))
            for o in r.get('o', []):
                other_props[o['cls'].split('/')[0] + '/' + o['cls'].split('/')[1]] += 1
        triaged = 0
        for c in sorted(b.crashes, key=lambda c: c['idx']):
            if triaged >= 24 or (triaged >= 6 and time.time() - t_start > (900 if tier == 'quick' else 3600)):
                # every abnormal end is counted; only the first ones (by run index) are re-run and classified - a change that
                # breaks every run must not turn the check into hours of re-execution
                extra['abnormal_ends_not_triaged'] = extra.get('abnormal_ends_not_triaged', 0) + 1
                continue
            triaged += 1
            plan = gen_plan(b.cfg, prop, tier, seed, c['idx'])
            o = run_plan(b.cfg, plan, trace=True, timeout=1800 if b.cfg == 'vg' else 400)
            p, cls, d = outcome_class(prop, plan, o, b.cfg)
            tries = 0
            while cls == 'ok' and b.cfg == 'ts' and tries < 4 and o['rc'] != -999:
                # ThreadSanitizer keeps a bounded, pseudo-randomly evicted access history per memory word: whether a given race
                # is *reported* can depend on heap layout. The interleaving itself is exactly the recorded one; retry the report.
                o = run_plan(b.cfg, plan, trace=True)
                p, cls, d = outcome_class(prop, plan, o, b.cfg)
                tries += 1
            if cls == 'ok' and c['rc'] in (-14, -27):
                # killed by the watchdog in the batch, but the same plan completes on its own: a slow run on a busy machine
                # (valgrind, -O0, heavy contention), not a hang - a real hang also hangs when replayed
                extra['slow_runs_killed_by_watchdog'] = extra.get('slow_runs_killed_by_watchdog', 0) + 1
                continue
            if cls == 'ok':
                # the abnormal end did not reproduce from its plan: machinery fault
                log('check: abnormal end of run %d (%s, rc=%s) did not reproduce from its plan' % (c['idx'], b.cfg, c['rc']))
                log(c['stderr'][-2000:])
                found.append(dict(cfg=b.cfg, idx=c['idx'], prop='MACHINERY', cls='MACHINERY/nonreproducible_crash', digest='', msg=c['stderr'][-300:], crash=True))
                continue
            if p == prop:
                found.append(dict(cfg=b.cfg, idx=c['idx'], prop=p, cls=cls, digest=d, msg=crash_detail(o['rc'], o['stderr']), crash=True))
            else:
                other_props[p + '/' + cls.split('/')[1]] += 1
    # ---- C17: same seeds, every configuration, digest equality
    if prop == 'C17' and len(batches) > 1:
        ref = None
        for b in batches:
            if b.cfg != 'vg':
                ref = b
                break
        compared = 0
        for b in batches:
            if b is ref:
                continue
            for idx, r in b.results.items():
                rr = ref.results.get(idx)
                if rr is None:
                    continue
                compared += 1
                if rr['d'] != r['d'] and not r['v'] and not rr['v']:
                    found.append(dict(cfg=b.cfg, idx=idx, prop='C17', cls='C17/digest_differs_across_builds/%s-vs-%s/%s' % (ref.cfg, b.cfg, r['c']),
                                      digest=r['d'], msg='%s: %s, %s: %s' % (ref.cfg, rr['d'], b.cfg, r['d']), crash=False, differential=True))
        extra['cross_build_digest_comparisons'] = compared

    mine = [f for f in found if f['prop'] == prop]
    machinery = [f for f in found if f['prop'] == 'MACHINERY']
    # one representative per class key (smallest index)
    by_class = {}
    for f in sorted(mine, key=lambda f: (f['idx'], f['cfg'])):
        by_class.setdefault(class_key(f['cls']), f)
    reports = []
    unstable = []
    exit_code = 0
    known_matched = []
    os.makedirs(REPLAYS, exist_ok=True)
    reported = 0
    for key, f in sorted(by_class.items()):
        k = known_match(known, prop, f['cls'])
        if k is not None:
            print('KNOWN-FINDING: property=%s %s' % (prop, k.get('what', key)))
            known_matched.append(key)
            continue
        if reported >= a.max_report:
            exit_code = max(exit_code, 1)
            continue
        reported += 1
        plan = gen_plan(f['cfg'], prop, tier, seed, f['idx'])
        plan['tier'] = tier
        if f.get('differential'):
            # gate: both configurations twice
            o1 = run_plan(f['cfg'], plan)
            o2 = run_plan(f['cfg'], plan)
            r1 = run_plan(batches[0].cfg, plan)
            ok = o1['result'] and o2['result'] and r1['result'] and o1['result']['d'] == o2['result']['d'] == f['digest'] and r1['result']['d'] != f['digest']
            if not ok:
                log('check: digest difference of run %d did not reproduce: machinery fault' % f['idx'])
                return 2
            plan['expect'] = {'property': prop, 'class': f['cls'], 'digest': f['digest'], 'config': f['cfg'], 'reference_config': batches[0].cfg, 'seed_index': f['idx']}
            path = os.path.join(REPLAYS, '%s-%s-%d.json' % (prop, f['cfg'], f['idx']))
            with open(path, 'w') as fh:
                json.dump(plan, fh, indent=1)
            print('VIOLATION property=%s replay=%s' % (prop, path))
            print('  class: %s\n  %s' % (f['cls'], f['msg']))
            exit_code = 1
            continue
        # gate: twice, fresh processes, same class and same digest
        g = [outcome_class(prop, plan, run_plan(f['cfg'], plan), f['cfg']) for _ in range(2)]
        if not all(class_key(x[1]) == class_key(f['cls']) and (x[2] == f['digest'] or f['crash'] or x[2] == 'crash') for x in g):
            # not reported (nothing that does not replay is ever reported); if nothing else is found the check ends with 2
            log('check: violation %s of run %d (%s) did not reproduce identically from its plan: %s' % (f['cls'], f['idx'], f['cfg'], g))
            unstable.append(f['cls'])
            continue
        small, calls = minimise(plan, f['cfg'], prop, f['cls'])
        o = run_plan(f['cfg'], small, trace=True)
        p2, cls2, d2 = outcome_class(prop, small, o, f['cfg'])
        if class_key(cls2) != class_key(f['cls']):
            log('check: minimised plan does not reproduce: machinery fault')
            unstable.append(f['cls'])
            continue
        msg = o['result']['v']['msg'] if (o['result'] and o['result'].get('v')) else crash_detail(o['rc'], o['stderr'])
        small['expect'] = {'property': prop, 'class': cls2, 'digest': d2, 'config': f['cfg'], 'seed_index': f['idx'], 'batch_seed': seed,
                           'original_ops': len(plan['ops']), 'minimised_ops': len(small['ops']), 'shrink_runs': calls, 'message': msg}
        path = os.path.join(REPLAYS, '%s-%s-%d.json' % (prop, f['cfg'], f['idx']))
        with open(path, 'w') as fh:
            json.dump(small, fh, indent=1)
        print('VIOLATION property=%s replay=%s' % (prop, path))
        print('  class: %s\n  %s\n  minimised %d -> %d ops in %d re-runs; ops: %s' % (cls2, msg, len(plan['ops']), len(small['ops']), calls,
                                                                                      json.dumps(small['ops'])[:600]))
        reports.append(dict(cls=cls2, replay=path))
        exit_code = 1
    if (machinery or unstable) and exit_code == 0:
        exit_code = 2  # nothing reproducible was found, but something abnormal happened: no verdict
    if unstable:
        extra['violations_that_did_not_replay'] = unstable

    # ---- evidence
    wall = time.time() - t_start
    evaluations = sum(len(b.results) for b in batches)
    faults = collections.Counter()
    probes = collections.Counter()
    logical = 0
    wrapstats = collections.Counter()
    for b in batches:
        for s in b.summaries:
            for k, v in s.get('faults', {}).items():
                faults[k] += v
            for k, v in s.get('probes', {}).items():
                if k.startswith('max_'):
                    probes[k] = max(probes[k], v)
                else:
                    probes[k] += v
            logical += s.get('logical', 0)
            for k, v in s.get('wrapstats', {}).items():
                wrapstats[k] += v
    matrix = {k[4:]: v for k, v in probes.items() if k.startswith('rej:')}
    openm = {k[9:]: v for k, v in probes.items() if k.startswith('openfail:')}
    plain = {k: v for k, v in probes.items() if not k.startswith(('rej:', 'openfail:'))}
    coverage = {}
    if prop == 'C15':
        pairs = set()
        files = {}
        loads = 0
        for b in batches:
            for r in b.results.values():
                for dgs, ln, rec in r.get('x', {}).get('io', []):
                    files[dgs] = (ln, rec)
        inside = sum(ln - ln // rec for ln, rec in files.values() if rec)
        loads = sum(v for k, v in faults.items() if k.startswith(('cut_', 'read_eio', 'arbitrary', 'malformed')))
        coverage['evaluations'] = int(loads)
        coverage['distinct_nontrivial'] = int(inside)
        coverage['distinct_files_cut_at_every_offset'] = len(files)
        coverage['simulated_runs'] = evaluations
        coverage['rule'] = RULES['C15']
        coverage['exhaustive'] = False
        coverage['exhaustive_per_file'] = True
        coverage['cut_region_histogram'] = {k: v for k, v in plain.items() if k.startswith('cut_')}
    elif prop == 'C18':
        scheds = set()
        for b in batches:
            for r in b.results.values():
                x = r.get('x', {})
                if x.get('switches', 0) > 0:
                    scheds.add(x.get('sched'))
        coverage['evaluations'] = evaluations
        coverage['distinct_nontrivial'] = len(scheds)
        coverage['rule'] = RULES['C18']
        coverage['context_switches'] = plain.get('context_switches', 0)
        coverage['yield_points'] = plain.get('yield_points', 0)
    else:
        states = set()
        for b in batches:
            for r in b.results.values():
                if r['nt']:
                    states.add(r['st'])
        coverage['evaluations'] = evaluations
        coverage['distinct_nontrivial'] = len(states)
        coverage['rule'] = RULES['C19'] if prop == 'C19' else RULES['graph']
    samples = []
    for i in range(3):
        try:
            samples.append(gen_plan(plan_cfgs[0][0], prop, tier, seed, i))
        except Exception as e:  # noqa
            pass
    coverage['samples'] = samples
    coverage['exhaustive'] = coverage.get('exhaustive', False)
    coverage['runs_per_config'] = {b.cfg: len(b.results) for b in batches}
    coverage['runs_per_hour'] = int(evaluations / max(wall, 1e-9) * 3600)
    coverage['logical_steps'] = int(logical)
    coverage['simulated_time_note'] = 'this library has no clock; simulated time is counted in logical steps (operations + observer calls; C19: neighbourhood scans)'
    coverage['faults_fired'] = dict(faults)
    coverage['probes'] = plain
    if matrix:
        coverage['reject_matrix'] = matrix
        coverage['reject_cells_hit'] = len(matrix)
    if openm:
        coverage['open_fail_matrix'] = openm
    if wrapstats:
        coverage['simdisk_syscalls'] = dict(wrapstats)
    coverage['build_configs'] = [c for c, _ in plan_cfgs]
    coverage['real_components'] = REAL + (['real pthreads, ThreadSanitizer (clang 14)'] if prop == 'C18' else [])
    coverage['stubbed_components'] = spec['stub']
    coverage['violations_of_other_properties_seen'] = dict(other_props)
    coverage['known_findings_matched'] = known_matched
    coverage['abnormal_ends'] = sum(len(b.crashes) for b in batches)
    coverage['incomplete_slices'] = any(b.incomplete for b in batches)
    coverage.update(extra)
    ev = {
        'property_id': prop, 'tier': tier, 'seed': seed, 'level': spec['level'], 'coverage': coverage,
        'assumptions': [
            'sampled, not exhaustive: a clean batch is evidence over the seeds explored, not a proof',
            'the reference model (sim/model/model.hpp) and the reference codecs (sim/graphsim/iocodec.hpp) are the specification',
            'x86-64 little-endian host; libstdc++ 12; big-endian behaviour and allocation failure are not simulated',
        ],
        'wall_s': round(wall, 2), 'violations': len([k for k in by_class if k not in known_matched]),
    }
    os.makedirs(EVIDENCE, exist_ok=True)
    with open(os.path.join(EVIDENCE, prop + '.json'), 'w') as f:
        json.dump(ev, f, indent=1)
    log('check: %s %s: %d evaluations, %d distinct non-trivial, %d violation classes, wall %.1fs, exit %d' % (
        prop, tier, coverage['evaluations'], coverage['distinct_nontrivial'], len(by_class), wall, exit_code))
    if other_props:
        log('check: violations charged to other properties (not failed on here): %s' % dict(other_props.most_common(8)))
    return exit_code
